package rules

import (
	"fmt"
	"go/types"
	"sort"
	"strings"

	"golang.org/x/tools/go/ssa"

	"verif/internal/load"
	"verif/internal/pe"
	"verif/internal/spec"
)

// scanModel extracts the transition relation of one of the hand-written byte scanners by
// interpreting its own Next() method over abstract states (engine PE): the scanner object graph is
// tracked exactly, the input bytes are supplied one at a time through symbolic memory, positions
// are symbols. Nothing of the repository is compiled or executed.
type scanModel struct {
	c        *load.Ctx
	cfg      *pe.Config
	rel      string
	name     string
	ctor     *ssa.Function
	next     *ssa.Function
	lexType  *ssa.Function
	lexBegin *ssa.Function
	lexEnd   *ssa.Function
	evNames  map[int64]string
	errIsEOS func(v pe.Value) bool // enum scanner: the returned error means "end of stream"
	retErr   bool                  // Next returns (LexEvent, error) instead of (LexEvent, bool)
	initial  pe.Value
	dataName string
	runs     int
	memo     map[string]*stepResult
	problems []string
}

type implState struct {
	root pe.Value // pointer to the scanner object
	key  string
}

// stepResult is the effect of feeding one byte (or end of input) to a scanner state, with all
// queued events drained.
type stepResult struct {
	Kind   string // "ok" | "reject" | "crash" | "undecided" | "end" (EOF only: input accepted by the scanner)
	Events []spec.Ev
	Next   *implState
	Detail string
	Code   string
	// LA is set when Kind == "lookahead": the result depends on the byte that follows.
	LA            map[int]*stepResult
	LastByteCrash string
}

func newPEConfig(c *load.Ctx) *pe.Config {
	c.BuildSSA()
	return &pe.Config{
		Prog:       c.Prog,
		Intrinsics: map[string]pe.Intrinsic{},
		InModule:   load.FuncInModule,
		Interpret:  map[string]bool{},
		Opaque: map[string]bool{
			"(" + load.Module + "/errors.Errorf).Error":    true,
			"(" + load.Module + "/errors.ErrorCode).Error": true,
		},
		Fuel:     400000,
		MaxDepth: 60,
	}
}

func lexEventNames(c *load.Ctx) map[int64]string {
	out := map[int64]string{}
	p := c.Pkg("internal/lexeme")
	if p == nil {
		return out
	}
	tn, _ := p.Types.Scope().Lookup("LexEventType").(*types.TypeName)
	if tn == nil {
		return out
	}
	for _, n := range p.Types.Scope().Names() {
		if k, ok := p.Types.Scope().Lookup(n).(*types.Const); ok && types.Identical(k.Type(), tn.Type()) {
			if v, ok := constInt(k); ok {
				out[v] = n
			}
		}
	}
	return out
}

func newScanModel(c *load.Ctx, rel, ctorName, typeName string, opts func(m *scanModel, in *pe.Interp, s *pe.Ptr)) (*scanModel, error) {
	m := &scanModel{c: c, cfg: newPEConfig(c), rel: rel, name: rel, memo: map[string]*stepResult{}}
	m.ctor = c.Func(rel, ctorName)
	m.next = c.Func(rel, typeName+".Next")
	m.lexType = c.Func("internal/lexeme", "LexEvent.Type")
	m.lexBegin = c.Func("internal/lexeme", "LexEvent.Begin")
	m.lexEnd = c.Func("internal/lexeme", "LexEvent.End")
	for n, f := range map[string]*ssa.Function{rel + "." + ctorName: m.ctor, rel + "." + typeName + ".Next": m.next,
		"lexeme.LexEvent.Type": m.lexType, "lexeme.LexEvent.Begin": m.lexBegin, "lexeme.LexEvent.End": m.lexEnd} {
		if f == nil {
			return nil, fmt.Errorf("anchor function %s not found", n)
		}
	}
	m.evNames = lexEventNames(c)
	if res := m.next.Signature.Results(); res.Len() == 2 {
		if _, isIface := res.At(1).Type().Underlying().(*types.Interface); isIface {
			m.retErr = true
		}
	}
	// build the initial state by interpreting the constructor on a symbolic file
	outs := pe.ExploreFn(m.cfg, func(in *pe.Interp) pe.Value {
		fileT := m.ctor.Params[0].Type()
		file := pe.NewSym("file", fileT)
		args := []pe.Value{file}
		for i := 1; i < len(m.ctor.Params); i++ {
			args = append(args, pe.NilV{})
		}
		s := in.Call(m.ctor, args)
		if sp, ok := s.(*pe.Ptr); ok && opts != nil {
			opts(m, in, sp)
		}
		return s
	})
	if len(outs) != 1 || outs[0].Undecided != "" || outs[0].Panicked {
		var why []string
		for _, o := range outs {
			why = append(why, o.Valuation()+" => "+o.Exit())
		}
		return nil, fmt.Errorf("constructor %s not interpretable to a single state: %s", ctorName, strings.Join(why, "; "))
	}
	root, ok := outs[0].Ret.(*pe.Ptr)
	if !ok || root.Obj == nil {
		return nil, fmt.Errorf("constructor %s did not return a heap object: %s", ctorName, pe.Show(outs[0].Ret))
	}
	m.initial = root
	return m, nil
}

func (m *scanModel) field(in *pe.Interp, s *pe.Ptr, name string) *pe.Ptr {
	return in.FieldPtr(s, name)
}

// posFields returns the pointers to the index, dataSize and data fields (found by type and name:
// the two bytes.Index fields named index/dataSize and the bytes.Bytes field data).
func (m *scanModel) normalise(st pe.Value) *implState {
	root := st.(*pe.Ptr)
	sv := root.Obj.Val.(*pe.StructV)
	stT := sv.T.Underlying().(*types.Struct)
	// rename stack-entry positions to depth tags and reset the index
	for i := 0; i < stT.NumFields(); i++ {
		f := stT.Field(i)
		switch f.Name() {
		case "index":
			sv.F[i] = pe.NewSym("i", f.Type())
		case "dataSize":
			sv.F[i] = &pe.Sym{Expr: "i", Off: 2, T: f.Type()}
		case "stack":
			// *ds.Stack[lexeme.LexEvent]: struct{vals []LexEvent}
			if sp, ok := sv.F[i].(*pe.Ptr); ok && sp.Obj != nil {
				if stk, ok := sp.Obj.Val.(*pe.StructV); ok && len(stk.F) == 1 {
					if elems, ok := pe.SliceElems(stk.F[0]); ok {
						for k, e := range elems {
							if ev, ok := e.(*pe.StructV); ok {
								est := ev.T.Underlying().(*types.Struct)
								for j := 0; j < est.NumFields(); j++ {
									if _, isSym := ev.F[j].(*pe.Sym); isSym && isIntType(est.Field(j).Type()) {
										ev.F[j] = pe.NewSym(fmt.Sprintf("p%d.%s", k, est.Field(j).Name()), est.Field(j).Type())
									}
								}
							}
						}
						// clear stale elements beyond the live length
						if s, ok := stk.F[0].(*pe.SliceV); ok {
							arr := s.Arr.Val.(*pe.ArrayV)
							for k := s.Hi; k < len(arr.E); k++ {
								arr.E[k] = int64(0)
							}
						}
					}
				}
			}
		}
	}
	key := pe.Canon(root, nil)
	return &implState{root: root, key: key}
}

func isIntType(t types.Type) bool {
	b, ok := t.Underlying().(*types.Basic)
	return ok && b.Info()&types.IsInteger != 0
}

func constInt(k *types.Const) (int64, bool) {
	v := k.Val()
	if v == nil {
		return 0, false
	}
	var i int64
	_, err := fmt.Sscan(v.ExactString(), &i)
	return i, err == nil
}

// Initial returns the normalised initial state.
func (m *scanModel) Initial() *implState {
	return m.normalise(pe.Clone(m.initial))
}

type microResult struct {
	kind   string // event | cut | end | reject | crash | undecided
	ev     spec.Ev
	state  pe.Value
	detail string
	code   string
	la     int // value of the look-ahead byte this result depends on (-1: none)
}

const (
	modeByte     = iota // a byte at the current index, more input follows
	modeLastByte        // a byte at the current index which is the last byte of the input
	modeDrain           // no byte may be read: deliver queued events only
	modeEOF             // end of input
)

// micro runs Next() once in the given mode. It returns one result, or several when the behaviour
// depends on the byte after the current one (look-ahead), each labelled with that byte.
func (m *scanModel) micro(st pe.Value, mode int, first int, lastConsumed string) []microResult {
	m.runs++
	finals := []pe.Value{}
	var laName string
	outs := pe.ExploreFn(m.cfg, func(in *pe.Interp) pe.Value {
		root := pe.Clone(st).(*pe.Ptr)
		finals = append(finals, root)
		sv := root.Obj.Val.(*pe.StructV)
		stT := sv.T.Underlying().(*types.Struct)
		var idx *pe.Sym
		var dataName string
		for i := 0; i < stT.NumFields(); i++ {
			switch stT.Field(i).Name() {
			case "index":
				idx, _ = sv.F[i].(*pe.Sym)
			case "data":
				if d, ok := sv.F[i].(*pe.Sym); ok {
					dataName = d.Name()
				}
			}
		}
		if idx == nil || dataName == "" {
			in.Undecided("scanner fields index/data are not symbolic as expected")
		}
		var remaining int64
		switch mode {
		case modeByte, modeDrain:
			remaining = 2
		case modeLastByte:
			remaining = 1
		}
		for i := 0; i < stT.NumFields(); i++ {
			if stT.Field(i).Name() == "dataSize" {
				sv.F[i] = &pe.Sym{Expr: idx.Expr, Off: idx.Off + remaining, T: stT.Field(i).Type()}
				in.SetSymLen(dataName, &pe.Sym{Expr: idx.Expr, Off: idx.Off + remaining, T: stT.Field(i).Type()})
			}
		}
		at := func(off int64) string {
			return dataName + "[" + pe.Show(&pe.Sym{Expr: idx.Expr, Off: idx.Off + off}) + "]"
		}
		switch mode {
		case modeByte:
			in.SetSymMem(at(0), int64(first))
			in.CutAddr, in.CutDepth = at(1), 1
			laName = at(1)
		case modeLastByte:
			in.SetSymMem(at(0), int64(first))
		case modeDrain:
			in.CutAddr, in.CutDepth = at(0), 1
		}
		ret := in.Call(m.next, []pe.Value{root})
		tp, ok := ret.(*pe.Tuple)
		if !ok || len(tp.E) != 2 {
			in.Undecided("unexpected result of Next: %s", pe.Show(ret))
		}
		// decode the event through its accessors
		t := in.Call(m.lexType, []pe.Value{tp.E[0]})
		b := in.Call(m.lexBegin, []pe.Value{tp.E[0]})
		e := in.Call(m.lexEnd, []pe.Value{tp.E[0]})
		return &pe.Tuple{E: []pe.Value{t, b, e, tp.E[1]}}
	})
	var results []microResult
	for k, o := range outs {
		la := -1
		foreign := ""
		for _, ch := range o.Choices {
			if laName != "" && ch.Name == laName {
				la = ch.Val
			} else {
				foreign = ch.Name
			}
		}
		if foreign != "" && len(outs) > 1 {
			var vs []string
			for _, o := range outs {
				vs = append(vs, "{"+o.Valuation()+" => "+o.Exit()+"}")
				if len(vs) > 6 {
					vs = append(vs, "…")
					break
				}
			}
			return []microResult{{kind: "undecided", la: -1, detail: "behaviour depends on atom " + foreign + " outside the abstract state: " + strings.Join(vs, " ")}}
		}
		var final pe.Value
		if k < len(finals) {
			final = finals[k]
		}
		mr := m.classify(o, final, lastConsumed)
		mr.la = la
		results = append(results, mr)
	}
	if len(results) == 0 {
		return []microResult{{kind: "undecided", la: -1, detail: "no outcome"}}
	}
	return results
}

func (m *scanModel) classify(o *pe.Outcome, final pe.Value, lastConsumed string) microResult {
	switch {
	case o.Undecided != "":
		return microResult{kind: "undecided", detail: o.Undecided}
	case o.Cut:
		return microResult{kind: "cut", state: final}
	case o.Panicked:
		code, ok := m.docErrCode(o.PanicVal)
		if ok {
			return microResult{kind: "reject", code: code, detail: "panic " + code}
		}
		return microResult{kind: "crash", detail: "panic " + pe.Show(o.PanicVal)}
	}
	tp := o.Ret.(*pe.Tuple)
	if m.retErr {
		if !pe.IsNil(tp.E[3]) {
			if m.errIsEOS != nil && m.errIsEOS(tp.E[3]) {
				return microResult{kind: "end", state: final}
			}
			code, ok := m.docErrCode(tp.E[3])
			if ok {
				return microResult{kind: "reject", code: code, detail: "error " + code}
			}
			return microResult{kind: "crash", detail: "unstructured error " + pe.Show(tp.E[3])}
		}
	} else {
		okv, isBool := tp.E[3].(bool)
		if !isBool {
			return microResult{kind: "undecided", detail: "Next's ok result is not concrete: " + pe.Show(tp.E[3])}
		}
		if !okv {
			return microResult{kind: "end", state: final}
		}
	}
	tv, ok := tp.E[0].(int64)
	if !ok {
		return microResult{kind: "undecided", detail: "event type not concrete: " + pe.Show(tp.E[0])}
	}
	name := m.evNames[tv]
	if name == "" {
		name = fmt.Sprintf("LexEventType(%d)", tv)
	}
	return microResult{kind: "event", state: final, ev: spec.Ev{Type: name, Begin: m.pos(tp.E[1], lastConsumed), End: m.pos(tp.E[2], lastConsumed)}}
}

// pos renders a position relative to the last consumed byte L. lastConsumed is the name of the
// symbol that denotes L in this run ("i" when a byte at i was consumed, "i-1" otherwise).
func (m *scanModel) pos(v pe.Value, lastConsumed string) string {
	s, ok := v.(*pe.Sym)
	if !ok {
		return pe.Show(v)
	}
	if s.Expr == "i" {
		off := s.Off
		if lastConsumed == "i-1" {
			off++
		}
		switch {
		case off == 0:
			return "L"
		case off > 0:
			return fmt.Sprintf("L+%d", off)
		default:
			return fmt.Sprintf("L%d", off)
		}
	}
	if strings.HasPrefix(s.Expr, "p") && strings.HasSuffix(s.Expr, ".begin") && s.Off == 0 {
		return strings.TrimSuffix(s.Expr, ".begin")
	}
	return s.Name()
}

// docErrCode recognises an errors.DocumentError (possibly wrapped in an interface) and returns
// its code.
func (m *scanModel) docErrCode(v pe.Value) (string, bool) {
	if i, ok := v.(*pe.Iface); ok {
		v = i.V
	}
	sv, ok := v.(*pe.StructV)
	if !ok {
		return "", false
	}
	named, ok := sv.T.(*types.Named)
	if !ok || named.Obj().Name() != "DocumentError" || named.Obj().Pkg() == nil || named.Obj().Pkg().Path() != load.Module+"/errors" {
		return "", false
	}
	st := named.Underlying().(*types.Struct)
	for i := 0; i < st.NumFields(); i++ {
		if st.Field(i).Name() == "code" {
			return "E" + pe.Show(sv.F[i]), true
		}
	}
	return "E?", true
}

// Feed feeds one byte (0..255) or end of input (-2) to a state and drains the queued events.
func (m *scanModel) Feed(st *implState, input int) *stepResult {
	mk := fmt.Sprintf("%s\x00%d", st.key, input)
	if r, ok := m.memo[mk]; ok {
		return r
	}
	r := m.feed(st, input)
	m.memo[mk] = r
	return r
}

func (m *scanModel) feed(st *implState, input int) *stepResult {
	if input >= 0 {
		mrs := m.micro(st.root, modeByte, input, "i")
		if len(mrs) == 1 {
			return m.finishByte(mrs[0])
		}
		// the behaviour depends on the following byte (look-ahead)
		res := &stepResult{Kind: "lookahead"}
		byLA := map[int]*stepResult{}
		sig := map[string]bool{}
		for _, mr := range mrs {
			r := m.finishByte(mr)
			byLA[mr.la] = r
			sig[r.signature()] = true
		}
		if len(byLA) != 256 {
			return &stepResult{Kind: "undecided", Detail: fmt.Sprintf("look-ahead fork covers %d of 256 byte values", len(byLA))}
		}
		// a look-ahead read when the consumed byte is the last byte of the input
		for _, mr := range m.micro(st.root, modeLastByte, input, "i") {
			if mr.kind == "crash" {
				res.LastByteCrash = mr.detail
			}
		}
		if len(sig) == 1 && res.LastByteCrash == "" {
			return byLA[0]
		}
		res.LA = byLA
		return res
	}
	// end of input
	res := &stepResult{}
	cur := st.root
	for n := 0; ; n++ {
		if n > 16 {
			res.Kind, res.Detail = "undecided", "more than 16 events at end of input"
			return res
		}
		mrs := m.micro(cur, modeEOF, 0, "i-1")
		if len(mrs) != 1 {
			res.Kind, res.Detail = "undecided", "several outcomes at end of input"
			return res
		}
		mr := mrs[0]
		switch mr.kind {
		case "event":
			res.Events = append(res.Events, mr.ev)
			cur = m.resetIndex(mr.state)
		case "end":
			res.Kind = "end"
			return res
		case "cut":
			res.Kind, res.Detail = "crash", "Next read past the end of input"
			return res
		default:
			res.Kind, res.Detail, res.Code = mr.kind, mr.detail, mr.code
			return res
		}
	}
}

func (r *stepResult) signature() string {
	k := ""
	if r.Next != nil {
		k = r.Next.key
	}
	return r.Kind + "\x00" + evsString(r.Events) + "\x00" + k + "\x00" + r.Code
}

// finishByte completes a byte transition whose first Next() call gave mr: drains queued events.
func (m *scanModel) finishByte(mr microResult) *stepResult {
	res := &stepResult{}
	var cur pe.Value
	switch mr.kind {
	case "cut":
		res.Kind = "ok"
		res.Next = m.normalise(mr.state)
		return res
	case "event":
		res.Events = append(res.Events, mr.ev)
		cur = mr.state
	case "end":
		res.Kind, res.Detail = "crash", "Next reported end of input although a byte was available"
		return res
	default:
		res.Kind, res.Detail, res.Code = mr.kind, mr.detail, mr.code
		return res
	}
	for n := 0; ; n++ {
		if n > 16 {
			res.Kind, res.Detail = "undecided", "more than 16 events queued on one byte"
			return res
		}
		mrs := m.micro(cur, modeDrain, 0, "i")
		if len(mrs) != 1 {
			res.Kind, res.Detail = "undecided", "several outcomes while delivering queued events"
			return res
		}
		mr := mrs[0]
		switch mr.kind {
		case "cut":
			res.Kind = "ok"
			res.Next = m.normalise(mr.state)
			return res
		case "event":
			res.Events = append(res.Events, mr.ev)
			cur = mr.state
		default:
			res.Kind, res.Detail, res.Code = mr.kind, mr.detail, mr.code
			if mr.kind == "end" {
				res.Kind, res.Detail = "crash", "Next reported end of input although bytes remain"
			}
			return res
		}
	}
}

func (m *scanModel) resetIndex(st pe.Value) pe.Value {
	root := st.(*pe.Ptr)
	sv := root.Obj.Val.(*pe.StructV)
	stT := sv.T.Underlying().(*types.Struct)
	for i := 0; i < stT.NumFields(); i++ {
		if stT.Field(i).Name() == "index" {
			sv.F[i] = pe.NewSym("i", stT.Field(i).Type())
		}
	}
	return root
}


// stackTypes returns the types of the events on the scanner's stack (outermost first).
func (m *scanModel) stackTypes(st *implState) []string {
	root := st.root.(*pe.Ptr)
	sv := root.Obj.Val.(*pe.StructV)
	stT := sv.T.Underlying().(*types.Struct)
	var out []string
	for i := 0; i < stT.NumFields(); i++ {
		if stT.Field(i).Name() != "stack" {
			continue
		}
		sp, ok := sv.F[i].(*pe.Ptr)
		if !ok || sp.Obj == nil {
			return nil
		}
		stk, ok := sp.Obj.Val.(*pe.StructV)
		if !ok || len(stk.F) != 1 {
			return nil
		}
		elems, _ := pe.SliceElems(stk.F[0])
		for _, e := range elems {
			if ev, ok := e.(*pe.StructV); ok {
				est := ev.T.Underlying().(*types.Struct)
				for j := 0; j < est.NumFields(); j++ {
					if est.Field(j).Name() == "lexEventType" {
						if tv, ok := ev.F[j].(int64); ok {
							out = append(out, m.evNames[tv])
						}
					}
				}
			}
		}
	}
	return out
}

func evsString(evs []spec.Ev) string {
	var parts []string
	for _, e := range evs {
		parts = append(parts, e.String())
	}
	return strings.Join(parts, " ")
}

func sortedKeys[V any](m map[string]V) []string {
	var ks []string
	for k := range m {
		ks = append(ks, k)
	}
	sort.Strings(ks)
	return ks
}
