package rules

import (
	"go/constant"
	"go/types"
	"sort"

	"golang.org/x/tools/go/ssa"

	"verif/internal/load"
	"verif/internal/pe"
)

// Abstract schema.Node for the decision tables: an opaque value of the interface type schema.Node
// whose methods are intrinsics. Presence of each constraint is a forked atom has(<type>); a present
// constraint is a heap object of the constraint's own Go type whose fields are opaque symbols
// (booleans and enum members among them fork when control depends on them). DeleteConstraint /
// AddConstraint are recorded as effects and update the presence.

type constraintInfo struct {
	name   string       // constant name, e.g. MinConstraintType
	val    int64        // constant value
	named  *types.Named // Go struct type implementing the constraint (nil if none found)
	rule   string       // stringer name ("min"), when resolvable
	hasVal bool
}

type absNodeEnv struct {
	*tableEnv
	byVal   map[int64]*constraintInfo
	byName  map[string]*constraintInfo
	nodeT   types.Type
	problem string
}

func constraintTypeConsts(c *load.Ctx) (types.Type, map[int64]string) {
	p := c.Pkg(pkgConstraint)
	out := map[int64]string{}
	if p == nil {
		return nil, out
	}
	tn, _ := p.Types.Scope().Lookup("Type").(*types.TypeName)
	if tn == nil {
		return nil, out
	}
	for _, n := range p.Types.Scope().Names() {
		if k, ok := p.Types.Scope().Lookup(n).(*types.Const); ok && types.Identical(k.Type(), tn.Type()) {
			if v, ok := constant.Int64Val(k.Val()); ok {
				out[v] = n
			}
		}
	}
	return tn.Type(), out
}

// constraintImpls lists the struct types of the constraint package that implement
// constraint.Constraint (by value or by pointer).
func constraintImpls(c *load.Ctx) []*types.Named {
	p := c.Pkg(pkgConstraint)
	if p == nil {
		return nil
	}
	itn, _ := p.Types.Scope().Lookup("Constraint").(*types.TypeName)
	if itn == nil {
		return nil
	}
	iface, _ := itn.Type().Underlying().(*types.Interface)
	var out []*types.Named
	for _, n := range p.Types.Scope().Names() {
		tn, ok := p.Types.Scope().Lookup(n).(*types.TypeName)
		if !ok || tn.IsAlias() {
			continue
		}
		named, ok := tn.Type().(*types.Named)
		if !ok {
			continue
		}
		if _, isStruct := named.Underlying().(*types.Struct); !isStruct {
			continue
		}
		if types.Implements(named, iface) || types.Implements(types.NewPointer(named), iface) {
			out = append(out, named)
		}
	}
	sort.Slice(out, func(i, j int) bool { return out[i].Obj().Name() < out[j].Obj().Name() })
	return out
}

func newAbsNodeEnv(c *load.Ctx) *absNodeEnv {
	e := &absNodeEnv{tableEnv: newTableEnv(c), byVal: map[int64]*constraintInfo{}, byName: map[string]*constraintInfo{}}
	_, consts := constraintTypeConsts(c)
	for v, n := range consts {
		ci := &constraintInfo{name: n, val: v}
		e.byVal[v] = ci
		e.byName[n] = ci
	}
	// which Go type carries which constant: interpret each implementation's Type() method
	for _, named := range constraintImpls(c) {
		fn := c.Func(pkgConstraint, named.Obj().Name()+".Type")
		if fn == nil {
			continue
		}
		for _, o := range pe.ExploreFn(e.cfg, func(in *pe.Interp) pe.Value {
			var recv pe.Value = pe.NewSym("c", named)
			if _, isPtr := fn.Params[0].Type().Underlying().(*types.Pointer); isPtr {
				recv = pe.NewSym("c", types.NewPointer(named))
			}
			return in.Call(fn, []pe.Value{recv})
		}) {
			if v, ok := o.Ret.(int64); ok && o.Undecided == "" && !o.Panicked {
				if ci := e.byVal[v]; ci != nil && ci.named == nil {
					ci.named = named
				}
			}
		}
	}
	if p := c.Pkg(pkgSchema); p != nil {
		if tn, _ := p.Types.Scope().Lookup("Node").(*types.TypeName); tn != nil {
			e.nodeT = tn.Type()
		}
	}
	if e.nodeT == nil {
		e.problem = "interface schema.Node not found"
		return e
	}
	e.install()
	return e
}

func (e *absNodeEnv) cname(v pe.Value) (string, *constraintInfo) {
	if i, ok := v.(int64); ok {
		if ci := e.byVal[i]; ci != nil {
			return ci.name, ci
		}
	}
	return pe.Show(v), nil
}

// constraintObject returns the heap object standing for a present constraint.
func (e *absNodeEnv) constraintObject(in *pe.Interp, ci *constraintInfo) pe.Value {
	key := "node.c(" + ci.name + ")"
	if v, ok := in.SymMem(key); ok {
		return v
	}
	var res pe.Value
	if ci.named == nil {
		res = pe.NewSym("constraint("+ci.name+")", nil)
	} else {
		st := ci.named.Underlying().(*types.Struct)
		sv := &pe.StructV{T: ci.named, F: make([]pe.Value, st.NumFields())}
		for i := 0; i < st.NumFields(); i++ {
			sv.F[i] = pe.NewSym(ci.named.Obj().Name()+"."+st.Field(i).Name(), st.Field(i).Type())
		}
		res = &pe.Iface{T: types.NewPointer(ci.named), V: &pe.Ptr{Obj: in.NewObj(ci.named, sv, ci.named.Obj().Name()), T: ci.named}}
	}
	in.SetSymMem(key, res)
	return res
}

func (e *absNodeEnv) has(in *pe.Interp, ci *constraintInfo) bool {
	key := "node.has(" + ci.name + ")"
	if v, ok := in.SymMem(key); ok {
		return v.(bool)
	}
	b := in.Choose("has("+ci.name+")", []string{"false", "true"}) == 1
	in.SetSymMem(key, b)
	return b
}

func (e *absNodeEnv) install() {
	prefix := "invoke:" + types.TypeString(e.nodeT, nil) + "."
	intr := e.cfg.Intrinsics
	intr[prefix+"Constraint"] = func(in *pe.Interp, args []pe.Value) (pe.Value, bool) {
		t := in.Concretize(args[1])
		_, ci := e.cname(t)
		if ci == nil {
			in.Undecided("Constraint() with a non-constant type %s", pe.Show(t))
		}
		if !e.has(in, ci) {
			return pe.NilV{}, true
		}
		return e.constraintObject(in, ci), true
	}
	intr[prefix+"DeleteConstraint"] = func(in *pe.Interp, args []pe.Value) (pe.Value, bool) {
		t := in.Concretize(args[1])
		n, ci := e.cname(t)
		in.Effect("delete " + n)
		if ci != nil {
			in.SetSymMem("node.has("+ci.name+")", false)
		}
		return nil, true
	}
	intr[prefix+"AddConstraint"] = func(in *pe.Interp, args []pe.Value) (pe.Value, bool) {
		desc := pe.Show(args[1])
		if i, ok := args[1].(*pe.Iface); ok {
			desc = types.TypeString(i.T, func(p *types.Package) string { return p.Name() })
			// find which constant the added object carries
			if pt, ok := i.T.(*types.Pointer); ok {
				for _, ci := range e.byVal {
					if ci.named != nil && types.Identical(ci.named, pt.Elem()) {
						in.SetSymMem("node.has("+ci.name+")", true)
						in.SetSymMem("node.c("+ci.name+")", args[1])
					}
				}
			}
		}
		in.Effect("add " + desc)
		return nil, true
	}
	jsonT := namedType(e.c, pkgJSON, "Type")
	intr[prefix+"Type"] = func(in *pe.Interp, args []pe.Value) (pe.Value, bool) {
		return pe.NewSym("node.type", jsonT), true
	}
}

var _ = ssa.Function{}
