// Package load loads the repository under analysis (type-checked syntax, SSA, call graphs).
//
// Everything is computed from the current working tree of the repository on every run; nothing is
// cached between runs.
package load

import (
	"fmt"
	"go/ast"
	"go/token"
	"go/types"
	"os"
	"path/filepath"
	"sort"
	"strings"
	"sync"

	"golang.org/x/tools/go/callgraph"
	"golang.org/x/tools/go/callgraph/cha"
	"golang.org/x/tools/go/callgraph/vta"
	"golang.org/x/tools/go/packages"
	"golang.org/x/tools/go/ssa"
	"golang.org/x/tools/go/ssa/ssautil"
)

// Module is the import path of the repository under analysis.
const Module = "github.com/jsightapi/jsight-schema-go-library"

// Ctx gives the rules lazy access to the loaded program.
type Ctx struct {
	Dir string // repository root

	Fset   *token.FileSet
	Pkgs   []*packages.Package // library packages of the module, sorted by path
	Aux    []*packages.Package // module packages that are not library code (test helpers, mocks, generator)
	ByPath map[string]*packages.Package

	ssaOnce sync.Once
	Prog    *ssa.Program
	SSAPkgs map[string]*ssa.Package

	cgOnce sync.Once
	vtaCG  *callgraph.Graph
	chaCG  *callgraph.Graph

	funcDeclOnce sync.Once
	funcDecls    map[*types.Func]*ast.FuncDecl
	declPkg      map[*ast.FuncDecl]*packages.Package
}

// Load type-checks all non-test packages of the repository in dir.
func Load(dir string) (*Ctx, error) {
	env := append(os.Environ(),
		"GOFLAGS=-mod=mod", "GOPROXY=off", "GOSUMDB=off", "GOTOOLCHAIN=local", "GOWORK=off")
	cfg := &packages.Config{
		Mode: packages.NeedName | packages.NeedFiles | packages.NeedCompiledGoFiles |
			packages.NeedImports | packages.NeedDeps | packages.NeedTypes | packages.NeedSyntax |
			packages.NeedTypesInfo | packages.NeedTypesSizes | packages.NeedModule,
		Dir:   dir,
		Env:   env,
		Tests: false,
	}
	pkgs, err := packages.Load(cfg, "./...")
	if err != nil {
		return nil, fmt.Errorf("packages.Load: %w", err)
	}
	c := &Ctx{Dir: dir, ByPath: map[string]*packages.Package{}}
	var errs []string
	packages.Visit(pkgs, nil, func(p *packages.Package) {
		for _, e := range p.Errors {
			errs = append(errs, fmt.Sprintf("%s: %s", p.PkgPath, e))
		}
	})
	if len(errs) > 0 {
		sort.Strings(errs)
		if len(errs) > 10 {
			errs = errs[:10]
		}
		return nil, fmt.Errorf("the tree does not type-check:\n  %s", strings.Join(errs, "\n  "))
	}
	for _, p := range pkgs {
		if p.PkgPath == Module || strings.HasPrefix(p.PkgPath, Module+"/") {
			if IsAux(Rel(p.PkgPath)) {
				c.Aux = append(c.Aux, p)
			} else {
				c.Pkgs = append(c.Pkgs, p)
			}
			c.ByPath[p.PkgPath] = p
			if c.Fset == nil {
				c.Fset = p.Fset
			}
		}
	}
	sort.Slice(c.Pkgs, func(i, j int) bool { return c.Pkgs[i].PkgPath < c.Pkgs[j].PkgPath })
	if len(c.Pkgs) == 0 {
		return nil, fmt.Errorf("no packages of module %s found in %s", Module, dir)
	}
	return c, nil
}

// IsAux reports whether a module-relative package path is not library code: the test helper
// package, mockery-generated mocks and the code generator.
func IsAux(rel string) bool {
	return rel == "test" || strings.HasSuffix(rel, "/mocks") || strings.HasPrefix(rel, "internal/cmd/")
}

// Rel returns the package path relative to the module ("" for the root package).
func Rel(pkgPath string) string {
	if pkgPath == Module {
		return "."
	}
	return strings.TrimPrefix(pkgPath, Module+"/")
}

// InModule reports whether the package belongs to the analysed module.
func InModule(p *types.Package) bool {
	if p == nil {
		return false
	}
	return p.Path() == Module || strings.HasPrefix(p.Path(), Module+"/")
}

// Pkg returns the package with the given module-relative path, or nil.
func (c *Ctx) Pkg(rel string) *packages.Package {
	if rel == "." || rel == "" {
		return c.ByPath[Module]
	}
	return c.ByPath[Module+"/"+rel]
}

// Pos renders a position relative to the repository root.
func (c *Ctx) Pos(p token.Pos) string {
	if !p.IsValid() {
		return "-"
	}
	pp := c.Fset.Position(p)
	f, err := filepath.Rel(c.Dir, pp.Filename)
	if err != nil {
		f = pp.Filename
	}
	return fmt.Sprintf("%s:%d", f, pp.Line)
}

// BuildSSA builds SSA for the whole program (module + dependencies).
func (c *Ctx) BuildSSA() {
	c.ssaOnce.Do(func() {
		prog, _ := ssautil.AllPackages(append(append([]*packages.Package{}, c.Pkgs...), c.Aux...), ssa.InstantiateGenerics)
		prog.Build()
		c.Prog = prog
		c.SSAPkgs = map[string]*ssa.Package{}
		for _, p := range c.Pkgs {
			if sp := prog.Package(p.Types); sp != nil {
				c.SSAPkgs[p.PkgPath] = sp
			}
		}
	})
}

// SSAPkg returns the SSA package for a module-relative path.
func (c *Ctx) SSAPkg(rel string) *ssa.Package {
	c.BuildSSA()
	if rel == "." || rel == "" {
		return c.SSAPkgs[Module]
	}
	return c.SSAPkgs[Module+"/"+rel]
}

// ModuleFunctions returns all SSA functions (incl. methods, closures, instantiations) that belong
// to the module, sorted by name.
func (c *Ctx) ModuleFunctions() []*ssa.Function {
	c.BuildSSA()
	var out []*ssa.Function
	for fn := range ssautil.AllFunctions(c.Prog) {
		if fn.Blocks == nil {
			continue
		}
		if FuncInModule(fn) && !IsAux(FuncPkgRel(fn)) {
			out = append(out, fn)
		}
	}
	sort.Slice(out, func(i, j int) bool {
		if out[i].String() != out[j].String() {
			return out[i].String() < out[j].String()
		}
		return out[i].Pos() < out[j].Pos()
	})
	return out
}

// FuncInModule reports whether an SSA function's code belongs to the module.
func FuncInModule(fn *ssa.Function) bool {
	for f := fn; f != nil; f = f.Parent() {
		if f.Pkg != nil {
			return InModule(f.Pkg.Pkg)
		}
		if o := f.Origin(); o != nil && o.Pkg != nil {
			return InModule(o.Pkg.Pkg)
		}
		if f.Object() != nil && f.Object().Pkg() != nil {
			return InModule(f.Object().Pkg())
		}
	}
	return false
}

// FuncPkgRel returns the module-relative package path of a function.
func FuncPkgRel(fn *ssa.Function) string {
	for f := fn; f != nil; f = f.Parent() {
		if f.Pkg != nil {
			return Rel(f.Pkg.Pkg.Path())
		}
		if o := f.Origin(); o != nil && o.Pkg != nil {
			return Rel(o.Pkg.Pkg.Path())
		}
		if f.Object() != nil && f.Object().Pkg() != nil {
			return Rel(f.Object().Pkg().Path())
		}
	}
	return "?"
}

// FuncKey is a position-free, stable name of an SSA function: "<relpkg>.<name>", with the
// receiver type for methods and "$n" for closures (as go/ssa names them).
func FuncKey(fn *ssa.Function) string {
	name := fn.Name()
	if recv := fn.Signature.Recv(); recv != nil {
		// the receiver is named without its pointer star: (T).M and (*T).M cannot both exist, and a
		// method keeps its key when its receiver is changed from a value to a pointer
		name = "(" + strings.TrimPrefix(types.TypeString(recv.Type(), func(*types.Package) string { return "" }), "*") + ")." + name
	}
	if fn.Parent() != nil {
		return FuncKey(fn.Parent()) + "$" + strings.TrimPrefix(fn.Name(), fn.Parent().Name()+"$")
	}
	return keyPkg(FuncPkgRel(fn)) + "." + name
}

func keyPkg(rel string) string {
	if rel == "." {
		return "<root>"
	}
	return rel
}

// VTA returns the VTA call graph (seeded by CHA).
func (c *Ctx) VTA() *callgraph.Graph {
	c.buildCG()
	return c.vtaCG
}

// CHA returns the CHA call graph.
func (c *Ctx) CHA() *callgraph.Graph {
	c.buildCG()
	return c.chaCG
}

func (c *Ctx) buildCG() {
	c.cgOnce.Do(func() {
		c.BuildSSA()
		c.chaCG = cha.CallGraph(c.Prog)
		c.vtaCG = vta.CallGraph(ssautil.AllFunctions(c.Prog), c.chaCG)
	})
}

// Func looks up a package-level function or a method by module-relative package path and name.
// Methods are written "T.M" (receiver base type name, pointer-ness ignored).
func (c *Ctx) Func(rel, name string) *ssa.Function {
	sp := c.SSAPkg(rel)
	if sp == nil {
		return nil
	}
	if i := strings.Index(name, "."); i >= 0 {
		tn, mn := name[:i], name[i+1:]
		obj := sp.Pkg.Scope().Lookup(tn)
		if obj == nil {
			return nil
		}
		named, ok := obj.Type().(*types.Named)
		if !ok {
			return nil
		}
		for _, t := range []types.Type{named, types.NewPointer(named)} {
			ms := c.Prog.MethodSets.MethodSet(t)
			for i := 0; i < ms.Len(); i++ {
				if ms.At(i).Obj().Name() == mn {
					if f := c.Prog.MethodValue(ms.At(i)); f != nil && f.Synthetic == "" {
						return f
					}
				}
			}
		}
		// fall back to synthetic wrappers' targets
		for _, t := range []types.Type{types.NewPointer(named), named} {
			ms := c.Prog.MethodSets.MethodSet(t)
			for i := 0; i < ms.Len(); i++ {
				if ms.At(i).Obj().Name() == mn {
					if fo, ok := ms.At(i).Obj().(*types.Func); ok {
						if f := c.Prog.FuncValue(fo); f != nil {
							return f
						}
					}
				}
			}
		}
		return nil
	}
	return sp.Func(name)
}

// FuncDecl returns the syntax of a types.Func declared in the module.
func (c *Ctx) FuncDecl(f *types.Func) (*ast.FuncDecl, *packages.Package) {
	c.funcDeclOnce.Do(func() {
		c.funcDecls = map[*types.Func]*ast.FuncDecl{}
		c.declPkg = map[*ast.FuncDecl]*packages.Package{}
		for _, p := range c.Pkgs {
			for _, file := range p.Syntax {
				for _, d := range file.Decls {
					if fd, ok := d.(*ast.FuncDecl); ok {
						if o, ok := p.TypesInfo.Defs[fd.Name].(*types.Func); ok {
							c.funcDecls[o] = fd
							c.declPkg[fd] = p
						}
					}
				}
			}
		}
	})
	fd := c.funcDecls[f]
	if fd == nil {
		return nil, nil
	}
	return fd, c.declPkg[fd]
}

// EachFuncDecl calls fn for every function declaration of the module, in a stable order.
func (c *Ctx) EachFuncDecl(fn func(p *packages.Package, file *ast.File, fd *ast.FuncDecl)) {
	for _, p := range c.Pkgs {
		for _, file := range p.Syntax {
			for _, d := range file.Decls {
				if fd, ok := d.(*ast.FuncDecl); ok {
					fn(p, file, fd)
				}
			}
		}
	}
}

// DeclKey is the position-free name of a declared function: "<relpkg>.(Recv).Name".
func DeclKey(p *packages.Package, fd *ast.FuncDecl) string {
	name := fd.Name.Name
	if fd.Recv != nil && len(fd.Recv.List) == 1 {
		name = "(" + recvString(fd.Recv.List[0].Type) + ")." + name
	}
	return keyPkg(Rel(p.PkgPath)) + "." + name
}

func recvString(e ast.Expr) string {
	switch t := e.(type) {
	case *ast.StarExpr:
		return recvString(t.X) // see FuncKey: no star in keys
	case *ast.Ident:
		return t.Name
	case *ast.IndexExpr:
		return recvString(t.X)
	case *ast.IndexListExpr:
		return recvString(t.X)
	case *ast.ParenExpr:
		return recvString(t.X)
	}
	return "?"
}

// HasBuildTags scans the module's Go files (including ones excluded from the build) for build
// constraints; the analysis assumes there are none besides the verification guard.
func (c *Ctx) BuildTaggedFiles() []string {
	var out []string
	filepath.Walk(c.Dir, func(path string, info os.FileInfo, err error) error {
		if err != nil {
			return nil
		}
		if info.IsDir() {
			if info.Name() == ".git" || info.Name() == "testdata" {
				return filepath.SkipDir
			}
			return nil
		}
		if !strings.HasSuffix(path, ".go") {
			return nil
		}
		b, err := os.ReadFile(path)
		if err != nil {
			return nil
		}
		for _, line := range strings.SplitN(string(b), "\n", 40) {
			if strings.HasPrefix(line, "//go:build") || strings.HasPrefix(line, "// +build") {
				rel, _ := filepath.Rel(c.Dir, path)
				out = append(out, rel+": "+strings.TrimSpace(line))
			}
			if strings.HasPrefix(line, "package ") {
				break
			}
		}
		return nil
	})
	sort.Strings(out)
	return out
}
