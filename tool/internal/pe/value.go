// Package pe is a finite-domain abstract interpreter over go/ssa.
//
// It evaluates SSA functions of the repository over a mixed domain: Go constants and a small
// heap are tracked exactly; everything the analysis does not know is an opaque symbol. When control
// depends on a symbol with a finite, enumerable domain (a boolean, a member of a Go enum, a byte,
// the ordering of two opaque numbers, the verdict of an opaque predicate) the interpreter forks on
// an *atom* and explores every member of the domain (replay-based depth-first enumeration). The
// result is a decision table: for every valuation of the consulted atoms, the recorded effects and
// the exit. No compiled code of the repository is executed and no solver is involved.
package pe

import (
	"fmt"
	"go/types"
	"sort"
	"strings"

	"golang.org/x/tools/go/ssa"
)

// Value is an abstract value: bool, int64, string, NilV, *Sym, *Ptr, *StructV, *ArrayV, *SliceV,
// *MapV, *Iface, *Closure, *Tuple, *Builtin.
type Value interface{}

// NilV is the nil pointer / slice / map / func / interface.
type NilV struct{}

// Sym is an opaque value named by the expression that produced it. Off is a constant offset for
// integer symbols (linear forms base+k).
type Sym struct {
	Expr string
	Off  int64
	T    types.Type
	// Dom, when set, names an atom domain for this symbol (see Interp.Domains).
	Dom string
}

func (s *Sym) Name() string {
	if s.Off == 0 {
		return s.Expr
	}
	if s.Off > 0 {
		return fmt.Sprintf("%s+%d", s.Expr, s.Off)
	}
	return fmt.Sprintf("%s-%d", s.Expr, -s.Off)
}

// Obj is a heap cell.
type Obj struct {
	ID  int
	Val Value
	T   types.Type
	Tag string // optional name used when printing
}

// Ptr points into a heap cell (Path selects struct fields / array elements), or into symbolic
// memory when Obj is nil and SymAddr is set.
type Ptr struct {
	Obj     *Obj
	Path    []int
	SymAddr string
	T       types.Type // element type
}

type StructV struct {
	T types.Type
	F []Value
}

type ArrayV struct {
	E []Value
}

type SliceV struct {
	Arr         *Obj // holds *ArrayV
	Lo, Hi, Cap int
}

type MapV struct {
	Keys []Value
	Vals []Value
	ID   int
}

type Iface struct {
	T types.Type // dynamic type
	V Value
}

type Closure struct {
	Fn   *ssa.Function
	Bind []Value
}

type Tuple struct {
	E []Value
}

type Builtin struct {
	Name string
}

// mapIter is the state of a Range over a map or string.
type mapIter struct {
	m   *MapV
	str string
	isS bool
	pos int
}

func isNil(v Value) bool {
	_, ok := v.(NilV)
	return ok
}

// Show renders a value for tables and messages (stable, position-free).
func Show(v Value) string {
	return show(v, 0)
}

func show(v Value, depth int) string {
	if depth > 4 {
		return "…"
	}
	switch x := v.(type) {
	case nil:
		return "<none>"
	case bool:
		return fmt.Sprintf("%v", x)
	case int64:
		return fmt.Sprintf("%d", x)
	case string:
		return fmt.Sprintf("%q", x)
	case NilV:
		return "nil"
	case *Sym:
		return "‹" + x.Name() + "›"
	case *Ptr:
		if x.Obj == nil {
			return "&‹" + x.SymAddr + "›"
		}
		tag := x.Obj.Tag
		if tag == "" {
			tag = fmt.Sprintf("obj%d", x.Obj.ID)
		}
		if len(x.Path) == 0 {
			return "&" + tag
		}
		return fmt.Sprintf("&%s%v", tag, x.Path)
	case *StructV:
		var parts []string
		for i, f := range x.F {
			name := fmt.Sprint(i)
			if st, ok := x.T.Underlying().(*types.Struct); ok && i < st.NumFields() {
				name = st.Field(i).Name()
			}
			parts = append(parts, name+":"+show(f, depth+1))
		}
		return typeShort(x.T) + "{" + strings.Join(parts, ",") + "}"
	case *ArrayV:
		var parts []string
		for _, e := range x.E {
			parts = append(parts, show(e, depth+1))
		}
		return "[" + strings.Join(parts, ",") + "]"
	case *SliceV:
		var parts []string
		arr := x.Arr.Val.(*ArrayV)
		for i := x.Lo; i < x.Hi && i < len(arr.E); i++ {
			parts = append(parts, show(arr.E[i], depth+1))
		}
		return "[" + strings.Join(parts, ",") + "]"
	case *MapV:
		var parts []string
		for i := range x.Keys {
			parts = append(parts, show(x.Keys[i], depth+1)+":"+show(x.Vals[i], depth+1))
		}
		sort.Strings(parts)
		return "map{" + strings.Join(parts, ",") + "}"
	case *Iface:
		return typeShort(x.T) + "(" + show(x.V, depth+1) + ")"
	case *Closure:
		return FuncName(x.Fn)
	case *Tuple:
		var parts []string
		for _, e := range x.E {
			parts = append(parts, show(e, depth+1))
		}
		return "(" + strings.Join(parts, ",") + ")"
	case *Builtin:
		return "builtin " + x.Name
	case *mapIter:
		return "iter"
	}
	return fmt.Sprintf("%T", v)
}

func typeShort(t types.Type) string {
	if t == nil {
		return "?"
	}
	return types.TypeString(t, func(p *types.Package) string { return p.Name() })
}

// FuncName is a position-free function name: pkgname.Name / (pkgname.T).M, closures as parent$n.
func FuncName(fn *ssa.Function) string {
	if fn == nil {
		return "nil"
	}
	s := fn.String()
	// strip module path prefix noise: keep last path element of package paths
	return shortenPaths(s)
}

func shortenPaths(s string) string {
	// "(*github.com/a/b/c.T).M" -> "(*c.T).M"
	var out strings.Builder
	i := 0
	for i < len(s) {
		j := i
		for j < len(s) && (isIdentChar(s[j]) || s[j] == '/' || s[j] == '.' || s[j] == '-') {
			j++
		}
		if j > i {
			tok := s[i:j]
			if k := strings.LastIndex(tok, "/"); k >= 0 {
				tok = tok[k+1:]
			}
			out.WriteString(tok)
			i = j
			continue
		}
		out.WriteByte(s[i])
		i++
	}
	return out.String()
}

func isIdentChar(c byte) bool {
	return c == '_' || c >= '0' && c <= '9' || c >= 'a' && c <= 'z' || c >= 'A' && c <= 'Z'
}

// deepCopy copies value-typed aggregates (structs, arrays); reference values are shared.
func deepCopy(v Value) Value {
	switch x := v.(type) {
	case *StructV:
		n := &StructV{T: x.T, F: make([]Value, len(x.F))}
		for i, f := range x.F {
			n.F[i] = deepCopy(f)
		}
		return n
	case *ArrayV:
		n := &ArrayV{E: make([]Value, len(x.E))}
		for i, f := range x.E {
			n.E[i] = deepCopy(f)
		}
		return n
	case *Tuple:
		n := &Tuple{E: make([]Value, len(x.E))}
		for i, f := range x.E {
			n.E[i] = deepCopy(f)
		}
		return n
	}
	return v
}

// IsNil reports whether v is the nil value.
func IsNil(v Value) bool { return isNil(v) }
