package pe

import (
	"fmt"
	"go/constant"
	"go/token"
	"go/types"
	"sort"
	"strings"

	"golang.org/x/tools/go/ssa"
)

// Choice records one consulted atom.
type Choice struct {
	Name  string
	Val   int
	Label string
}

// Outcome of one explored path.
type Outcome struct {
	Choices   []Choice
	Effects   []string
	Ret       Value
	PanicVal  Value
	Panicked  bool
	Undecided string
	PanicIn   string  // function in which the panic was raised
	Cut       bool    // the path loaded a CutV marker (driver-defined stop)
	Interp    *Interp // final state (heap) of this path
}

// CutV is a marker value: loading it from memory stops the path (Outcome.Cut).
type CutV struct{}

type cutSignal struct{}

// Exit renders the exit of the path.
func (o *Outcome) Exit() string {
	switch {
	case o.Undecided != "":
		return "UNDECIDED(" + o.Undecided + ")"
	case o.Cut:
		return "cut"
	case o.Panicked:
		return "panic " + Show(o.PanicVal)
	default:
		return "return " + Show(o.Ret)
	}
}

// Valuation renders the consulted atoms.
func (o *Outcome) Valuation() string {
	var parts []string
	for _, c := range o.Choices {
		parts = append(parts, c.Name+"="+c.Label)
	}
	return strings.Join(parts, " ")
}

// ChoiceMap returns atom -> label.
func (o *Outcome) ChoiceMap() map[string]string {
	m := map[string]string{}
	for _, c := range o.Choices {
		m[c.Name] = c.Label
	}
	return m
}

// Intrinsic overrides the interpretation of a function. It returns handled=false to fall through.
type Intrinsic func(in *Interp, args []Value) (ret Value, handled bool)

// Config is shared by all runs of one exploration.
type Config struct {
	Prog       *ssa.Program
	Intrinsics map[string]Intrinsic // keyed by ssa.Function.String() or "invoke:<iface type>.<method>"
	// InModule tells which functions are interpreted; others are opaque unless listed in Interpret.
	InModule  func(fn *ssa.Function) bool
	Interpret map[string]bool // extra (non-module) functions to interpret, by String()
	Opaque    map[string]bool // module functions to treat as opaque, by String()
	Fuel      int
	MaxDepth  int
	// AllowFork, when set, restricts which atoms may be forked on; a fork on any other atom makes the
	// path UNDECIDED.
	AllowFork func(name string) bool
	MaxPaths  int
	// MaxChoices bounds the number of forks on one path (a loop whose bound is symbolic forks once per
	// iteration); TotalFuel bounds the instructions interpreted over all paths of one exploration.
	MaxChoices int
	TotalFuel  int
	// OnFieldAddr is called for every field address computation (struct type, field name).
	OnFieldAddr func(in *Interp, structT types.Type, field string)
}

type undecided struct{ why string }
type goPanic struct {
	val   Value
	where string
}

// Interp is the state of one run.
type Interp struct {
	cfg     *Config
	oracle  *oracle
	fuel    int
	depth   int
	nextID  int
	Effects []string
	choices []Choice
	symMem  map[string]Value
	globals map[*ssa.Global]*Obj
	inited  map[*ssa.Package]bool
	Notes   map[string]bool

	panicking  *goPanic
	recovered  bool
	recoverAt  int // call depth at which recover() is effective (the deferred function's own frame)
	enumCache  map[types.Type][]enumConst
	CallTrace  []string
	TraceCalls bool

	// CutAddr: a load from this symbolic address by a function at call depth <= CutDepth stops the
	// path (Outcome.Cut); deeper loads see ordinary symbolic memory.
	CutAddr  string
	CutDepth int
	// CutPrefix/CutAfter: loads (at call depth <= CutDepth) from symbolic addresses with this prefix
	// are counted; the load number CutAfter+1 stops the path.
	CutPrefix string
	CutAfter  int
	cutCount  int
	rangeNo   int
	fnStack   []*ssa.Function
	// SymLens gives the length of opaque slices by name; index expressions into them are bounds-checked
	// when index and length are comparable.
	SymLens map[string]Value
}

// SetSymLen declares the length of an opaque slice.
func (in *Interp) SetSymLen(name string, l Value) {
	if in.SymLens == nil {
		in.SymLens = map[string]Value{}
	}
	in.SymLens[name] = l
}

type enumConst struct {
	name string
	val  int64
}

type oracle struct {
	choices []int
	domains []int
	pos     int
	memo    map[string]int
}

func (o *oracle) reset() {
	o.pos = 0
	o.memo = map[string]int{}
}

func (o *oracle) choose(name string, n int) int {
	if v, ok := o.memo[name]; ok {
		return v
	}
	var v int
	if o.pos < len(o.choices) {
		v = o.choices[o.pos]
	} else {
		o.choices = append(o.choices, 0)
		o.domains = append(o.domains, n)
	}
	o.pos++
	o.memo[name] = v
	return v
}

func (o *oracle) next() bool {
	// drop unused tail (choices beyond pos were not consulted in the last run)
	o.choices = o.choices[:o.pos]
	o.domains = o.domains[:o.pos]
	for len(o.choices) > 0 {
		last := len(o.choices) - 1
		if o.choices[last]+1 < o.domains[last] {
			o.choices[last]++
			return true
		}
		o.choices = o.choices[:last]
		o.domains = o.domains[:last]
	}
	return false
}

// Explore enumerates all paths. setup builds the initial state in a fresh interpreter and returns the
// function to run with its arguments.
func Explore(cfg *Config, setup func(in *Interp) (*ssa.Function, []Value)) []*Outcome {
	return ExploreFn(cfg, func(in *Interp) Value {
		fn, args := setup(in)
		if fn == nil {
			in.Undecided("setup returned no function")
		}
		return in.Call(fn, args)
	})
}

// ExploreFn enumerates all paths of an arbitrary driver function.
func ExploreFn(cfg *Config, run func(in *Interp) Value) []*Outcome {
	if cfg.Fuel == 0 {
		cfg.Fuel = 200000
	}
	if cfg.MaxDepth == 0 {
		cfg.MaxDepth = 40
	}
	if cfg.MaxPaths == 0 {
		cfg.MaxPaths = 6000
	}
	if cfg.MaxChoices == 0 {
		cfg.MaxChoices = 400
	}
	if cfg.TotalFuel == 0 {
		cfg.TotalFuel = 20000000
	}
	o := &oracle{}
	var outs []*Outcome
	spent := 0
	for {
		o.reset()
		in := &Interp{cfg: cfg, oracle: o, fuel: cfg.Fuel, symMem: map[string]Value{}, globals: map[*ssa.Global]*Obj{},
			inited: map[*ssa.Package]bool{}, Notes: map[string]bool{}, enumCache: map[types.Type][]enumConst{}}
		out := in.runTop(run)
		outs = append(outs, out)
		spent += cfg.Fuel - in.fuel
		if len(outs) >= cfg.MaxPaths {
			outs = append(outs, &Outcome{Undecided: "path limit exceeded"})
			break
		}
		if spent > cfg.TotalFuel {
			outs = append(outs, &Outcome{Undecided: "exploration budget exceeded (a loop with a symbolic bound, or too many paths)"})
			break
		}
		if !o.next() {
			break
		}
	}
	return outs
}

func (in *Interp) runTop(run func(in *Interp) Value) (out *Outcome) {
	out = &Outcome{Interp: in}
	defer func() {
		out.Choices = in.choices
		out.Effects = in.Effects
		if e := recover(); e != nil {
			switch x := e.(type) {
			case *undecided:
				out.Undecided = x.why
			case *goPanic:
				out.Panicked = true
				out.PanicVal = x.val
				out.PanicIn = x.where
			case *cutSignal:
				out.Cut = true
			default:
				panic(e)
			}
		}
	}()
	out.Ret = run(in)
	return
}

// Undecided aborts the current path.
func (in *Interp) Undecided(format string, a ...any) {
	panic(&undecided{fmt.Sprintf(format, a...)})
}

// Panic raises a Go-level panic in the interpreted program.
func (in *Interp) Panic(v Value) {
	where := ""
	if len(in.fnStack) > 0 {
		where = FuncName(in.fnStack[len(in.fnStack)-1])
	}
	panic(&goPanic{val: v, where: where})
}

// Effect records an observable effect.
func (in *Interp) Effect(format string, a ...any) {
	in.Effects = append(in.Effects, fmt.Sprintf(format, a...))
}

// Choose forks on an atom with n values.
func (in *Interp) Choose(name string, labels []string) int {
	if v, ok := in.oracle.memo[name]; ok {
		return v
	}
	if in.cfg.AllowFork != nil && !in.cfg.AllowFork(name) {
		in.Undecided("control depends on undeclared atom %s", name)
	}
	if len(in.choices) >= in.cfg.MaxChoices {
		in.Undecided("more than %d forks on one path (a loop with a symbolic bound?), last atom %s", in.cfg.MaxChoices, name)
	}
	v := in.oracle.choose(name, len(labels))
	in.choices = append(in.choices, Choice{Name: name, Val: v, Label: labels[v]})
	return v
}

// Chosen returns the label already chosen for an atom ("" if not consulted).
func (in *Interp) Chosen(name string) string {
	for _, c := range in.choices {
		if c.Name == name {
			return c.Label
		}
	}
	return ""
}

// NewObj allocates a heap cell.
func (in *Interp) NewObj(t types.Type, v Value, tag string) *Obj {
	in.nextID++
	return &Obj{ID: in.nextID, Val: v, T: t, Tag: tag}
}

// NewSym makes an opaque value.
func NewSym(expr string, t types.Type) *Sym { return &Sym{Expr: expr, T: t} }

// SymMem reads symbolic memory.
func (in *Interp) SymMem(addr string) (Value, bool) {
	v, ok := in.symMem[addr]
	return v, ok
}

// Concretize forks on a finite-domain symbol (exported for intrinsics).
func (in *Interp) Concretize(v Value) Value { return in.concretize(v) }

// SetSymMem binds a symbolic address (e.g. "s.annotation") to a value.
func (in *Interp) SetSymMem(addr string, v Value) { in.symMem[addr] = v }

// Zero returns the zero value of a type.
func (in *Interp) Zero(t types.Type) Value {
	switch u := t.Underlying().(type) {
	case *types.Basic:
		switch {
		case u.Info()&types.IsBoolean != 0:
			return false
		case u.Info()&types.IsInteger != 0:
			return int64(0)
		case u.Info()&types.IsString != 0:
			return ""
		case u.Kind() == types.UnsafePointer:
			return NilV{}
		case u.Kind() == types.UntypedNil:
			return NilV{}
		}
		return &Sym{Expr: "0.0", T: t}
	case *types.Struct:
		s := &StructV{T: t, F: make([]Value, u.NumFields())}
		for i := 0; i < u.NumFields(); i++ {
			s.F[i] = in.Zero(u.Field(i).Type())
		}
		return s
	case *types.Array:
		a := &ArrayV{E: make([]Value, int(u.Len()))}
		for i := range a.E {
			a.E[i] = in.Zero(u.Elem())
		}
		return a
	case *types.Tuple:
		tp := &Tuple{E: make([]Value, u.Len())}
		for i := 0; i < u.Len(); i++ {
			tp.E[i] = in.Zero(u.At(i).Type())
		}
		return tp
	}
	return NilV{}
}

type frame struct {
	fn     *ssa.Function
	env    map[ssa.Value]Value
	defers []deferred
	result Value
}

type deferred struct {
	call *ssa.CallCommon
	fnv  Value
	args []Value
}

// Call interprets a function.
func (in *Interp) Call(fn *ssa.Function, args []Value) Value {
	if fn == nil {
		in.Undecided("call of nil function")
	}
	key := fn.String()
	if in.TraceCalls {
		in.CallTrace = append(in.CallTrace, strings.Repeat(" ", in.depth)+FuncName(fn))
	}
	if intr, ok := in.cfg.Intrinsics[key]; ok {
		if ret, handled := intr(in, args); handled {
			return ret
		}
	}
	if fn.Blocks == nil || in.cfg.Opaque[key] || (!in.cfg.InModule(fn) && !in.cfg.Interpret[key]) {
		return in.opaqueCall(FuncName(fn), fn.Signature, args)
	}
	if in.depth >= in.cfg.MaxDepth {
		in.Undecided("call depth exceeded at %s", FuncName(fn))
	}
	in.depth++
	defer func() { in.depth-- }()
	fr := &frame{fn: fn, env: map[ssa.Value]Value{}}
	for i, p := range fn.Params {
		if i < len(args) {
			fr.env[p] = args[i]
		} else {
			in.Undecided("missing argument %d for %s", i, FuncName(fn))
		}
	}
	return in.runFrame(fr, nil)
}

// callClosure calls a closure with bindings.
func (in *Interp) callClosure(c *Closure, args []Value) Value {
	fn := c.Fn
	key := fn.String()
	if intr, ok := in.cfg.Intrinsics[key]; ok {
		if ret, handled := intr(in, append(append([]Value{}, c.Bind...), args...)); handled {
			return ret
		}
	}
	if fn.Blocks == nil || in.cfg.Opaque[key] || (!in.cfg.InModule(fn) && !in.cfg.Interpret[key]) {
		return in.opaqueCall(FuncName(fn), fn.Signature, args)
	}
	if in.depth >= in.cfg.MaxDepth {
		in.Undecided("call depth exceeded at %s", FuncName(fn))
	}
	if in.TraceCalls {
		in.CallTrace = append(in.CallTrace, strings.Repeat(" ", in.depth)+FuncName(fn))
	}
	in.depth++
	defer func() { in.depth-- }()
	fr := &frame{fn: fn, env: map[ssa.Value]Value{}}
	for i, p := range fn.Params {
		if i < len(args) {
			fr.env[p] = args[i]
		} else {
			in.Undecided("missing argument %d for %s", i, FuncName(fn))
		}
	}
	for i, fv := range fn.FreeVars {
		if i < len(c.Bind) {
			fr.env[fv] = c.Bind[i]
		}
	}
	return in.runFrame(fr, nil)
}

func (in *Interp) runFrame(fr *frame, start *ssa.BasicBlock) (ret Value) {
	fn := fr.fn
	in.fnStack = append(in.fnStack, fn)
	depth0 := len(in.fnStack)
	defer func() { in.fnStack = in.fnStack[:depth0-1] }()
	defer func() {
		e := recover()
		if e == nil {
			return
		}
		gp, ok := e.(*goPanic)
		if !ok {
			panic(e)
		}
		// run deferred calls while panicking
		savedP, savedR, savedAt := in.panicking, in.recovered, in.recoverAt
		in.panicking, in.recovered, in.recoverAt = gp, false, in.depth+1
		func() {
			defer func() {
				// a panic inside a deferred call replaces the current one
				if e2 := recover(); e2 != nil {
					in.panicking, in.recovered, in.recoverAt = savedP, savedR, savedAt
					panic(e2)
				}
			}()
			in.runDefers(fr)
		}()
		rec := in.recovered
		in.panicking, in.recovered, in.recoverAt = savedP, savedR, savedAt
		if !rec {
			panic(gp)
		}
		// recovered: resume at the Recover block, or return zero values
		if fn.Recover != nil {
			ret = in.runBlocks(fr, fn.Recover)
			return
		}
		ret = in.Zero(fn.Signature.Results())
		if fn.Signature.Results().Len() == 1 {
			ret = ret.(*Tuple).E[0]
		} else if fn.Signature.Results().Len() == 0 {
			ret = nil
		}
	}()
	if start == nil {
		start = fn.Blocks[0]
	}
	return in.runBlocks(fr, start)
}

func (in *Interp) runDefers(fr *frame) {
	for len(fr.defers) > 0 {
		d := fr.defers[len(fr.defers)-1]
		fr.defers = fr.defers[:len(fr.defers)-1]
		in.invoke(d.call, d.fnv, d.args, fr)
	}
}

func (in *Interp) runBlocks(fr *frame, b *ssa.BasicBlock) Value {
	var prev *ssa.BasicBlock
	for {
		var next *ssa.BasicBlock
		// Phis are evaluated simultaneously.
		var phiVals []Value
		nphi := 0
		for _, ins := range b.Instrs {
			phi, ok := ins.(*ssa.Phi)
			if !ok {
				break
			}
			nphi++
			idx := -1
			for i, p := range b.Preds {
				if p == prev {
					idx = i
					break
				}
			}
			if idx < 0 {
				in.Undecided("phi without predecessor in %s", FuncName(fr.fn))
			}
			phiVals = append(phiVals, in.get(fr, phi.Edges[idx]))
		}
		for i := 0; i < nphi; i++ {
			fr.env[b.Instrs[i].(*ssa.Phi)] = phiVals[i]
		}
		for _, ins := range b.Instrs[nphi:] {
			in.fuel--
			if in.fuel <= 0 {
				in.Undecided("step budget exceeded in %s", FuncName(fr.fn))
			}
			switch x := ins.(type) {
			case *ssa.If:
				c := in.truth(in.get(fr, x.Cond))
				if c {
					next = b.Succs[0]
				} else {
					next = b.Succs[1]
				}
			case *ssa.Jump:
				next = b.Succs[0]
			case *ssa.Return:
				var ret Value
				switch len(x.Results) {
				case 0:
					ret = nil
				case 1:
					ret = in.get(fr, x.Results[0])
				default:
					t := &Tuple{}
					for _, r := range x.Results {
						t.E = append(t.E, in.get(fr, r))
					}
					ret = t
				}
				return ret
			case *ssa.Panic:
				in.Panic(in.get(fr, x.X))
			case *ssa.RunDefers:
				in.runDefers(fr)
			default:
				in.exec(fr, ins)
			}
		}
		if next == nil {
			in.Undecided("block without terminator in %s", FuncName(fr.fn))
		}
		prev, b = b, next
	}
}

// truth decides a branch condition, forking when it is symbolic.
func (in *Interp) truth(v Value) bool {
	switch x := v.(type) {
	case bool:
		return x
	case *Sym:
		c := in.concretize(x)
		if b, ok := c.(bool); ok {
			return b
		}
		return in.Choose("cond("+x.Name()+")", []string{"false", "true"}) == 1
	}
	in.Undecided("branch on non-boolean %s", Show(v))
	return false
}

func (in *Interp) get(fr *frame, v ssa.Value) Value {
	switch x := v.(type) {
	case *ssa.Const:
		return in.constValue(x)
	case *ssa.Function:
		return &Closure{Fn: x}
	case *ssa.Global:
		return &Ptr{Obj: in.global(x), T: x.Type().(*types.Pointer).Elem()}
	case *ssa.Builtin:
		return &Builtin{Name: x.Name()}
	}
	val, ok := fr.env[v]
	if !ok {
		in.Undecided("use of undefined SSA value %s in %s", v.Name(), FuncName(fr.fn))
	}
	return val
}

func (in *Interp) constValue(c *ssa.Const) Value {
	if c.Value == nil {
		return in.Zero(c.Type())
	}
	switch c.Value.Kind() {
	case constant.Bool:
		return constant.BoolVal(c.Value)
	case constant.String:
		return constant.StringVal(c.Value)
	case constant.Int:
		if i, ok := constant.Int64Val(c.Value); ok {
			return i
		}
		if u, ok := constant.Uint64Val(c.Value); ok {
			return int64(u)
		}
	}
	return &Sym{Expr: "const(" + c.Value.ExactString() + ")", T: c.Type()}
}

func (in *Interp) global(g *ssa.Global) *Obj {
	if o, ok := in.globals[g]; ok {
		return o
	}
	elem := g.Type().(*types.Pointer).Elem()
	o := in.NewObj(elem, in.Zero(elem), g.Pkg.Pkg.Name()+"."+g.Name())
	in.globals[g] = o
	// run the package initializer once so that composite-literal tables are populated
	if g.Pkg != nil && !in.inited[g.Pkg] && in.cfg.InModule != nil {
		in.inited[g.Pkg] = true
		if init := g.Pkg.Func("init"); init != nil && in.cfg.InModule(init) {
			savedFork := in.cfg.AllowFork
			func() {
				defer func() {
					if e := recover(); e != nil {
						if u, ok := e.(*undecided); ok {
							in.Notes["package init of "+g.Pkg.Pkg.Path()+" not fully interpreted: "+u.why] = true
							return
						}
						if _, ok := e.(*goPanic); ok {
							in.Notes["package init of "+g.Pkg.Pkg.Path()+" panicked in the interpreter"] = true
							return
						}
						panic(e)
					}
				}()
				in.Call(init, nil)
			}()
			in.cfg.AllowFork = savedFork
		}
	}
	return o
}

// --- memory ----------------------------------------------------------------

func (in *Interp) load(p Value, t types.Type) Value {
	switch x := p.(type) {
	case *Ptr:
		if x.Obj == nil {
			if in.CutAddr != "" && x.SymAddr == in.CutAddr && in.depth <= in.CutDepth {
				panic(&cutSignal{})
			}
			if in.CutPrefix != "" && in.depth <= in.CutDepth && strings.HasPrefix(x.SymAddr, in.CutPrefix) {
				in.cutCount++
				if in.cutCount > in.CutAfter {
					panic(&cutSignal{})
				}
			}
			if v, ok := in.symMem[x.SymAddr]; ok {
				if _, cut := v.(CutV); cut {
					panic(&cutSignal{})
				}
				return deepCopy(v)
			}
			return &Sym{Expr: x.SymAddr, T: t}
		}
		v := x.Obj.Val
		for _, i := range x.Path {
			switch a := v.(type) {
			case *StructV:
				v = a.F[i]
			case *ArrayV:
				if i < 0 || i >= len(a.E) {
					in.Panic(&Sym{Expr: "runtime error: index out of range"})
				}
				v = a.E[i]
			case *Sym:
				name := fmt.Sprint(i)
				var ft types.Type
				if a.T != nil {
					if st, ok := a.T.Underlying().(*types.Struct); ok && i < st.NumFields() {
						name = st.Field(i).Name()
						ft = st.Field(i).Type()
					}
				}
				addr := a.Name() + "." + name
				if mv, ok := in.symMem[addr]; ok {
					v = mv
					continue
				}
				v = &Sym{Expr: addr, T: ft}
			default:
				in.Undecided("load through %T", v)
			}
		}
		return deepCopy(v)
	case NilV:
		in.Panic(&Sym{Expr: "runtime error: nil pointer dereference"})
	case *Sym:
		addr := "*" + x.Name()
		if v, ok := in.symMem[addr]; ok {
			return deepCopy(v)
		}
		return &Sym{Expr: addr, T: t}
	}
	in.Undecided("load from %s", Show(p))
	return nil
}

func (in *Interp) store(p Value, val Value) {
	val = deepCopy(val)
	switch x := p.(type) {
	case *Ptr:
		if x.Obj == nil {
			in.symMem[x.SymAddr] = val
			return
		}
		if len(x.Path) == 0 {
			x.Obj.Val = val
			return
		}
		if sv, ok := x.Obj.Val.(*Sym); ok {
			if ex := expandSymStruct(sv); ex != nil {
				x.Obj.Val = ex
			}
		}
		v := x.Obj.Val
		for k, i := range x.Path {
			last := k == len(x.Path)-1
			if sa, ok := v.(*StructV); ok && !last {
				if sv, ok := sa.F[i].(*Sym); ok {
					if ex := expandSymStruct(sv); ex != nil {
						sa.F[i] = ex
					}
				}
			}
			switch a := v.(type) {
			case *StructV:
				if last {
					a.F[i] = val
					return
				}
				v = a.F[i]
			case *ArrayV:
				if i < 0 || i >= len(a.E) {
					in.Panic(&Sym{Expr: "runtime error: index out of range"})
				}
				if last {
					a.E[i] = val
					return
				}
				v = a.E[i]
			default:
				in.Undecided("store through %T", v)
			}
		}
	case NilV:
		in.Panic(&Sym{Expr: "runtime error: nil pointer dereference"})
	case *Sym:
		in.symMem["*"+x.Name()] = val
		return
	default:
		in.Undecided("store to %s", Show(p))
	}
}

// expandSymStruct turns an opaque struct value into a struct of opaque fields (so that single fields
// can be overwritten).
func expandSymStruct(s *Sym) *StructV {
	if s.T == nil {
		return nil
	}
	st, ok := s.T.Underlying().(*types.Struct)
	if !ok {
		return nil
	}
	sv := &StructV{T: s.T, F: make([]Value, st.NumFields())}
	for i := 0; i < st.NumFields(); i++ {
		sv.F[i] = &Sym{Expr: s.Name() + "." + st.Field(i).Name(), T: st.Field(i).Type()}
	}
	return sv
}

// --- atoms -----------------------------------------------------------------

func (in *Interp) enumOf(t types.Type) []enumConst {
	if e, ok := in.enumCache[t]; ok {
		return e
	}
	var out []enumConst
	if named, ok := t.(*types.Named); ok && named.Obj().Pkg() != nil {
		if b, ok := named.Underlying().(*types.Basic); ok && b.Info()&types.IsInteger != 0 {
			scope := named.Obj().Pkg().Scope()
			for _, n := range scope.Names() {
				if c, ok := scope.Lookup(n).(*types.Const); ok && types.Identical(c.Type(), t) {
					if v, ok := constant.Int64Val(c.Val()); ok {
						out = append(out, enumConst{n, v})
					}
				}
			}
			sort.Slice(out, func(i, j int) bool {
				if out[i].val != out[j].val {
					return out[i].val < out[j].val
				}
				return out[i].name < out[j].name
			})
			// distinct values only
			var d []enumConst
			for _, e := range out {
				if len(d) == 0 || d[len(d)-1].val != e.val {
					d = append(d, e)
				}
			}
			out = d
		}
	}
	in.enumCache[t] = out
	return out
}

// concretize forks on a symbol with a finite domain and returns its concrete value; other symbols
// are returned unchanged.
func (in *Interp) concretize(v Value) Value {
	s, ok := v.(*Sym)
	if !ok || s.T == nil {
		return v
	}
	if s.Off != 0 && s.Dom == "" {
		return v
	}
	if s.Dom == "byte" {
		labels := make([]string, 256)
		for i := range labels {
			labels[i] = fmt.Sprint(i)
		}
		return int64(in.Choose(s.Expr, labels)) + s.Off
	}
	if b, ok := s.T.Underlying().(*types.Basic); ok && b.Info()&types.IsBoolean != 0 {
		return in.Choose(s.Expr, []string{"false", "true"}) == 1
	}
	if enum := in.enumOf(s.T); len(enum) >= 2 {
		labels := make([]string, len(enum))
		for i, e := range enum {
			labels[i] = e.name
		}
		return enum[in.Choose(s.Expr, labels)].val
	}
	if b, ok := s.T.Underlying().(*types.Basic); ok && b.Kind() == types.Uint8 && s.Off == 0 && s.Dom == "" {
		labels := make([]string, 256)
		for i := range labels {
			labels[i] = fmt.Sprint(i)
		}
		return int64(in.Choose(s.Expr, labels))
	}
	return v
}

// --- opaque calls ------------------------------------------------------------

func (in *Interp) opaqueCall(name string, sig *types.Signature, args []Value) Value {
	var parts []string
	for _, a := range args {
		parts = append(parts, Show(a))
	}
	expr := name + "(" + strings.Join(parts, ",") + ")"
	res := sig.Results()
	switch res.Len() {
	case 0:
		return nil
	case 1:
		return &Sym{Expr: expr, T: res.At(0).Type()}
	}
	t := &Tuple{}
	for i := 0; i < res.Len(); i++ {
		t.E = append(t.E, &Sym{Expr: fmt.Sprintf("%s#%d", expr, i), T: res.At(i).Type()})
	}
	return t
}

// --- calls -------------------------------------------------------------------

func (in *Interp) callCommon(fr *frame, c *ssa.CallCommon) Value {
	var args []Value
	var fnv Value
	if c.IsInvoke() {
		fnv = in.get(fr, c.Value)
	} else {
		fnv = in.get(fr, c.Value)
	}
	for _, a := range c.Args {
		args = append(args, in.get(fr, a))
	}
	return in.invoke(c, fnv, args, fr)
}

func (in *Interp) invoke(c *ssa.CallCommon, fnv Value, args []Value, fr *frame) Value {
	if c.IsInvoke() {
		recv := fnv
		ikey := "invoke:" + types.TypeString(c.Value.Type(), nil) + "." + c.Method.Name()
		switch r := recv.(type) {
		case *Iface:
			if intr, ok := in.cfg.Intrinsics[ikey]; ok {
				if ret, handled := intr(in, append([]Value{recv}, args...)); handled {
					return ret
				}
			}
			ms := in.cfg.Prog.MethodSets.MethodSet(r.T)
			sel := ms.Lookup(c.Method.Pkg(), c.Method.Name())
			if sel == nil {
				in.Undecided("method %s not found on %s", c.Method.Name(), typeShort(r.T))
			}
			m := in.cfg.Prog.MethodValue(sel)
			if m == nil {
				in.Undecided("abstract method %s on %s", c.Method.Name(), typeShort(r.T))
			}
			return in.Call(m, append([]Value{r.V}, args...))
		case NilV:
			in.Panic(&Sym{Expr: "runtime error: nil interface method call"})
		case *Sym:
			if intr, ok := in.cfg.Intrinsics[ikey]; ok {
				if ret, handled := intr(in, append([]Value{recv}, args...)); handled {
					return ret
				}
			}
			return in.opaqueCall(r.Name()+"."+c.Method.Name(), c.Method.Type().(*types.Signature), args)
		}
		in.Undecided("invoke on %s", Show(recv))
	}
	switch f := fnv.(type) {
	case *Closure:
		if len(f.Bind) == 0 {
			return in.Call(f.Fn, args)
		}
		return in.callClosure(f, args)
	case *Builtin:
		return in.builtin(f.Name, c, args, fr)
	case *Sym:
		sig, _ := f.T.Underlying().(*types.Signature)
		if sig == nil {
			in.Undecided("call of non-function symbol %s", f.Name())
		}
		if intr, ok := in.cfg.Intrinsics["callsym:"+f.Expr]; ok {
			if ret, handled := intr(in, args); handled {
				return ret
			}
		}
		return in.opaqueCall(f.Name(), sig, args)
	case NilV:
		in.Panic(&Sym{Expr: "runtime error: call of nil function"})
	}
	in.Undecided("call of %s", Show(fnv))
	return nil
}

func (in *Interp) builtin(name string, c *ssa.CallCommon, args []Value, fr *frame) Value {
	switch name {
	case "len", "cap":
		switch x := args[0].(type) {
		case string:
			return int64(len(x))
		case *SliceV:
			if name == "cap" {
				return int64(x.Cap - x.Lo)
			}
			return int64(x.Hi - x.Lo)
		case NilV:
			return int64(0)
		case *MapV:
			return int64(len(x.Keys))
		case *ArrayV:
			return int64(len(x.E))
		case *Ptr:
			if a, ok := in.load(x, nil).(*ArrayV); ok {
				return int64(len(a.E))
			}
		case *Sym:
			if l, ok := in.SymLens[x.Name()]; ok && name == "len" {
				return l
			}
			return &Sym{Expr: name + "(" + x.Name() + ")", T: types.Typ[types.Int]}
		}
	case "append":
		return in.appendSlice(args[0], args[1], c)
	case "copy":
		dst, ok1 := args[0].(*SliceV)
		if _, isNil := args[0].(NilV); isNil {
			return int64(0)
		}
		n := 0
		switch src := args[1].(type) {
		case *SliceV:
			if !ok1 {
				break
			}
			n = dst.Hi - dst.Lo
			if src.Hi-src.Lo < n {
				n = src.Hi - src.Lo
			}
			sa, da := src.Arr.Val.(*ArrayV), dst.Arr.Val.(*ArrayV)
			tmp := make([]Value, n)
			for i := 0; i < n; i++ {
				tmp[i] = sa.E[src.Lo+i]
			}
			for i := 0; i < n; i++ {
				da.E[dst.Lo+i] = deepCopy(tmp[i])
			}
			return int64(n)
		case string:
			if !ok1 {
				break
			}
			n = dst.Hi - dst.Lo
			if len(src) < n {
				n = len(src)
			}
			da := dst.Arr.Val.(*ArrayV)
			for i := 0; i < n; i++ {
				da.E[dst.Lo+i] = int64(src[i])
			}
			return int64(n)
		case NilV:
			return int64(0)
		}
	case "delete":
		if m, ok := args[0].(*MapV); ok {
			k := in.concretize(args[1])
			for i := range m.Keys {
				if in.valueEq(m.Keys[i], k) {
					m.Keys = append(m.Keys[:i:i], m.Keys[i+1:]...)
					m.Vals = append(m.Vals[:i:i], m.Vals[i+1:]...)
					break
				}
			}
			return nil
		}
		if isNil(args[0]) {
			return nil
		}
		if sm, ok := args[0].(*Sym); ok {
			in.Effect("delete(%s,%s)", sm.Name(), Show(args[1]))
			return nil
		}
	case "recover":
		// recover() stops a panic only when called directly by the deferred function
		if in.panicking != nil && !in.recovered && in.depth == in.recoverAt {
			in.recovered = true
			v := in.panicking.val
			return v
		}
		return NilV{}
	case "print", "println":
		return nil
	case "min", "max":
		if a, ok := args[0].(int64); ok {
			best := a
			for _, x := range args[1:] {
				b, ok := x.(int64)
				if !ok {
					in.Undecided("builtin %s on symbol", name)
				}
				if name == "min" && b < best || name == "max" && b > best {
					best = b
				}
			}
			return best
		}
	case "ssa:wrapnilchk":
		if isNil(args[0]) {
			in.Panic(&Sym{Expr: "runtime error: nil pointer dereference (wrapnilchk)"})
		}
		return args[0]
	}
	in.Undecided("builtin %s on %s", name, Show(args[0]))
	return nil
}

func (in *Interp) appendSlice(s Value, more Value, c *ssa.CallCommon) Value {
	var add []Value
	switch m := more.(type) {
	case NilV:
	case *SliceV:
		arr := m.Arr.Val.(*ArrayV)
		for i := m.Lo; i < m.Hi; i++ {
			add = append(add, arr.E[i])
		}
	case string:
		for i := 0; i < len(m); i++ {
			add = append(add, int64(m[i]))
		}
	case *Sym:
		// appending opaque content: the result is an opaque slice (a copy when the target is nil)
		var t types.Type = m.T
		if len(c.Args) > 0 {
			t = c.Args[0].Type()
		}
		return &Sym{Expr: "append(" + Show(s) + "," + m.Name() + "...)", T: t}
	default:
		in.Undecided("append of %s", Show(more))
	}
	// copy the values first: source and destination may alias
	for i := range add {
		add[i] = deepCopy(add[i])
	}
	switch x := s.(type) {
	case NilV:
		if len(add) == 0 {
			return NilV{}
		}
		arr := &ArrayV{E: append([]Value{}, add...)}
		return &SliceV{Arr: in.NewObj(nil, arr, ""), Lo: 0, Hi: len(add), Cap: len(add)}
	case *SliceV:
		arr := x.Arr.Val.(*ArrayV)
		if x.Hi+len(add) <= x.Cap {
			for i, v := range add {
				arr.E[x.Hi+i] = v
			}
			return &SliceV{Arr: x.Arr, Lo: x.Lo, Hi: x.Hi + len(add), Cap: x.Cap}
		}
		n := x.Hi - x.Lo
		newCap := 2 * (x.Cap - x.Lo)
		if newCap < n+len(add) {
			newCap = n + len(add)
		}
		var zero Value = int64(0)
		if st, ok := c.Args[0].Type().Underlying().(*types.Slice); ok {
			zero = in.Zero(st.Elem())
		}
		na := &ArrayV{E: make([]Value, newCap)}
		for i := 0; i < n; i++ {
			na.E[i] = deepCopy(arr.E[x.Lo+i])
		}
		for i, v := range add {
			na.E[n+i] = v
		}
		for i := n + len(add); i < newCap; i++ {
			na.E[i] = deepCopy(zero)
		}
		return &SliceV{Arr: in.NewObj(nil, na, ""), Lo: 0, Hi: n + len(add), Cap: newCap}
	case *Sym:
		in.Effect("append(%s, %d values)", x.Name(), len(add))
		return &Sym{Expr: fmt.Sprintf("append(%s,…)", x.Name()), T: x.T}
	}
	in.Undecided("append to %s", Show(s))
	return nil
}

// --- instructions ------------------------------------------------------------

func (in *Interp) exec(fr *frame, ins ssa.Instruction) {
	switch x := ins.(type) {
	case *ssa.DebugRef:
	case *ssa.Alloc:
		elem := x.Type().(*types.Pointer).Elem()
		o := in.NewObj(elem, in.Zero(elem), "")
		fr.env[x] = &Ptr{Obj: o, T: elem}
	case *ssa.Store:
		in.store(in.get(fr, x.Addr), in.get(fr, x.Val))
	case *ssa.UnOp:
		fr.env[x] = in.unop(fr, x)
	case *ssa.BinOp:
		fr.env[x] = in.binop(x.Op, in.get(fr, x.X), in.get(fr, x.Y), x.X.Type(), x.Type())
	case *ssa.Call:
		v := in.callCommon(fr, &x.Call)
		fr.env[x] = v
	case *ssa.Defer:
		var args []Value
		for _, a := range x.Call.Args {
			args = append(args, in.get(fr, a))
		}
		fr.defers = append(fr.defers, deferred{call: &x.Call, fnv: in.get(fr, x.Call.Value), args: args})
	case *ssa.Go:
		in.Undecided("go statement")
	case *ssa.ChangeInterface:
		fr.env[x] = in.get(fr, x.X)
	case *ssa.ChangeType:
		v := in.get(fr, x.X)
		if s, ok := v.(*Sym); ok {
			v = &Sym{Expr: s.Expr, Off: s.Off, T: x.Type(), Dom: s.Dom}
		}
		if sv, ok := v.(*StructV); ok {
			sv.T = x.Type()
		}
		fr.env[x] = v
	case *ssa.Convert:
		fr.env[x] = in.convert(in.get(fr, x.X), x.X.Type(), x.Type())
	case *ssa.MultiConvert:
		fr.env[x] = in.convert(in.get(fr, x.X), x.X.Type(), x.Type())
	case *ssa.Extract:
		t := in.get(fr, x.Tuple)
		tp, ok := t.(*Tuple)
		if !ok {
			in.Undecided("extract from %s", Show(t))
		}
		fr.env[x] = tp.E[x.Index]
	case *ssa.Field:
		v := in.get(fr, x.X)
		switch s := v.(type) {
		case *StructV:
			fr.env[x] = deepCopy(s.F[x.Field])
		case *Sym:
			fr.env[x] = in.symField(s, x.X.Type(), x.Field, x.Type())
		default:
			in.Undecided("field of %s", Show(v))
		}
	case *ssa.FieldAddr:
		p := in.get(fr, x.X)
		elem := x.Type().(*types.Pointer).Elem()
		if in.cfg.OnFieldAddr != nil {
			if pt, ok := x.X.Type().Underlying().(*types.Pointer); ok {
				in.cfg.OnFieldAddr(in, pt.Elem(), fieldName(x.X.Type(), x.Field))
			}
		}
		switch pp := p.(type) {
		case *Ptr:
			if pp.Obj == nil {
				fr.env[x] = &Ptr{SymAddr: pp.SymAddr + "." + fieldName(x.X.Type(), x.Field), T: elem}
			} else {
				fr.env[x] = &Ptr{Obj: pp.Obj, Path: append(append([]int{}, pp.Path...), x.Field), T: elem}
			}
		case *Sym:
			fr.env[x] = &Ptr{SymAddr: pp.Name() + "." + fieldName(x.X.Type(), x.Field), T: elem}
		case NilV:
			in.Panic(&Sym{Expr: "runtime error: nil pointer dereference"})
		default:
			in.Undecided("fieldaddr of %s", Show(p))
		}
	case *ssa.Index:
		fr.env[x] = in.index(in.get(fr, x.X), in.get(fr, x.Index), x.Type())
	case *ssa.IndexAddr:
		fr.env[x] = in.indexAddr(in.get(fr, x.X), in.get(fr, x.Index), x.Type().(*types.Pointer).Elem())
	case *ssa.Lookup:
		fr.env[x] = in.lookup(x, in.get(fr, x.X), in.get(fr, x.Index))
	case *ssa.MakeClosure:
		c := &Closure{Fn: x.Fn.(*ssa.Function)}
		for _, b := range x.Bindings {
			c.Bind = append(c.Bind, in.get(fr, b))
		}
		fr.env[x] = c
	case *ssa.MakeInterface:
		fr.env[x] = &Iface{T: x.X.Type(), V: in.get(fr, x.X)}
	case *ssa.MakeMap:
		in.nextID++
		fr.env[x] = &MapV{ID: in.nextID}
	case *ssa.MakeSlice:
		l, ok1 := in.get(fr, x.Len).(int64)
		cp, ok2 := in.get(fr, x.Cap).(int64)
		if !ok1 || !ok2 {
			// symbolic size: an opaque slice
			fr.env[x] = &Sym{Expr: fmt.Sprintf("make(%s)", typeShort(x.Type())), T: x.Type()}
			return
		}
		if cp > 4096 {
			cp = l
			if cp > 4096 {
				in.Undecided("make of very large slice")
			}
		}
		elem := x.Type().Underlying().(*types.Slice).Elem()
		arr := &ArrayV{E: make([]Value, cp)}
		for i := range arr.E {
			arr.E[i] = in.Zero(elem)
		}
		fr.env[x] = &SliceV{Arr: in.NewObj(nil, arr, ""), Lo: 0, Hi: int(l), Cap: int(cp)}
	case *ssa.MapUpdate:
		m := in.get(fr, x.Map)
		k := in.concretize(in.get(fr, x.Key))
		v := deepCopy(in.get(fr, x.Value))
		switch mm := m.(type) {
		case *MapV:
			for i := range mm.Keys {
				if in.valueEq(mm.Keys[i], k) {
					mm.Vals[i] = v
					return
				}
			}
			mm.Keys = append(mm.Keys, k)
			mm.Vals = append(mm.Vals, v)
		case NilV:
			in.Panic(&Sym{Expr: "assignment to entry in nil map"})
		case *Sym:
			in.Effect("mapupdate %s[%s]=%s", mm.Name(), Show(k), Show(v))
		default:
			in.Undecided("map update on %s", Show(m))
		}
	case *ssa.Range:
		v := in.get(fr, x.X)
		switch r := v.(type) {
		case *MapV:
			// iterate over a snapshot of the keys present now (entries added during iteration
			// may or may not be visited in Go; they are not visited here). Go's iteration order is
			// unspecified: for small maps every order is explored, larger ones are walked backwards.
			keys, vals := append([]Value{}, r.Keys...), append([]Value{}, r.Vals...)
			switch n := len(keys); {
			case n == 2 || n == 3:
				in.rangeNo++
				perms := [][]int{{0, 1}, {1, 0}}
				if n == 3 {
					perms = [][]int{{0, 1, 2}, {0, 2, 1}, {1, 0, 2}, {1, 2, 0}, {2, 0, 1}, {2, 1, 0}}
				}
				labels := make([]string, len(perms))
				for i := range perms {
					labels[i] = fmt.Sprint(perms[i])
				}
				p := perms[in.Choose(fmt.Sprintf("maporder#%d", in.rangeNo), labels)]
				k2, v2 := make([]Value, n), make([]Value, n)
				for i, j := range p {
					k2[i], v2[i] = keys[j], vals[j]
				}
				keys, vals = k2, v2
			case n > 3:
				for i, j := 0, n-1; i < j; i, j = i+1, j-1 {
					keys[i], keys[j] = keys[j], keys[i]
					vals[i], vals[j] = vals[j], vals[i]
				}
			}
			fr.env[x] = &mapIter{m: &MapV{Keys: keys, Vals: vals}}
		case NilV:
			fr.env[x] = &mapIter{m: &MapV{}}
		case string:
			fr.env[x] = &mapIter{isS: true, str: r}
		default:
			in.Undecided("range over %s", Show(v))
		}
	case *ssa.Next:
		it, ok := in.get(fr, x.Iter).(*mapIter)
		if !ok {
			in.Undecided("next on non-iterator")
		}
		if it.isS {
			if it.pos >= len(it.str) {
				fr.env[x] = &Tuple{E: []Value{false, int64(0), int64(0)}}
			} else {
				// decode one rune
				r, size := decodeRune(it.str[it.pos:])
				fr.env[x] = &Tuple{E: []Value{true, int64(it.pos), int64(r)}}
				it.pos += size
			}
			return
		}
		if it.pos >= len(it.m.Keys) {
			fr.env[x] = &Tuple{E: []Value{false, NilV{}, NilV{}}}
		} else {
			fr.env[x] = &Tuple{E: []Value{true, it.m.Keys[it.pos], deepCopy(it.m.Vals[it.pos])}}
			it.pos++
		}
	case *ssa.Slice:
		fr.env[x] = in.slice(fr, x)
	case *ssa.TypeAssert:
		fr.env[x] = in.typeAssert(x, in.get(fr, x.X))
	case *ssa.Select, *ssa.Send, *ssa.MakeChan:
		in.Undecided("channel operation")
	default:
		in.Undecided("unsupported instruction %T", ins)
	}
}

func decodeRune(s string) (rune, int) {
	for i, r := range s {
		_ = i
		n := len(string(r))
		if r == 0xFFFD {
			n = 1
		}
		return r, n
	}
	return 0, 0
}

func fieldName(ptrT types.Type, i int) string {
	t := ptrT
	if p, ok := t.Underlying().(*types.Pointer); ok {
		t = p.Elem()
	}
	if st, ok := t.Underlying().(*types.Struct); ok && i < st.NumFields() {
		return st.Field(i).Name()
	}
	return fmt.Sprint(i)
}

func (in *Interp) symField(s *Sym, structT types.Type, i int, ft types.Type) Value {
	addr := s.Name() + "." + fieldName(structT, i)
	if v, ok := in.symMem[addr]; ok {
		return v
	}
	return &Sym{Expr: addr, T: ft}
}

func (in *Interp) unop(fr *frame, x *ssa.UnOp) Value {
	v := in.get(fr, x.X)
	switch x.Op {
	case token.MUL:
		return in.load(v, x.Type())
	case token.NOT:
		switch b := v.(type) {
		case bool:
			return !b
		case *Sym:
			c := in.concretize(b)
			if cb, ok := c.(bool); ok {
				return !cb
			}
			return !in.truth(b)
		}
	case token.SUB:
		switch n := v.(type) {
		case int64:
			return wrapInt(-n, x.Type())
		case *Sym:
			return &Sym{Expr: "-(" + n.Name() + ")", T: x.Type()}
		}
	case token.XOR:
		if n, ok := v.(int64); ok {
			return wrapInt(^n, x.Type())
		}
		if s, ok := v.(*Sym); ok {
			return &Sym{Expr: "^(" + s.Name() + ")", T: x.Type()}
		}
	case token.ARROW:
		in.Undecided("channel receive")
	}
	in.Undecided("unop %s on %s", x.Op, Show(v))
	return nil
}

func isUnsigned(t types.Type) bool {
	if b, ok := t.Underlying().(*types.Basic); ok {
		return b.Info()&types.IsUnsigned != 0
	}
	return false
}

func wrapInt(v int64, t types.Type) int64 {
	b, ok := t.Underlying().(*types.Basic)
	if !ok {
		return v
	}
	switch b.Kind() {
	case types.Int8:
		return int64(int8(v))
	case types.Int16:
		return int64(int16(v))
	case types.Int32:
		return int64(int32(v))
	case types.Uint8:
		return int64(uint8(v))
	case types.Uint16:
		return int64(uint16(v))
	case types.Uint32:
		return int64(uint32(v))
	}
	return v
}

func (in *Interp) binop(op token.Token, a, b Value, opT types.Type, resT types.Type) Value {
	// struct comparison: field by field, so that opaque fields become separate atoms
	if sa, ok := a.(*StructV); ok && (op == token.EQL || op == token.NEQ) {
		if sb, ok := b.(*StructV); ok && len(sa.F) == len(sb.F) {
			eq := true
			st, _ := sa.T.Underlying().(*types.Struct)
			for i := range sa.F {
				var ft types.Type
				if st != nil && i < st.NumFields() {
					ft = st.Field(i).Type()
				}
				fe, isB := in.binop(token.EQL, sa.F[i], sb.F[i], ft, types.Typ[types.Bool]).(bool)
				if !isB {
					in.Undecided("struct field comparison is not decidable")
				}
				if !fe {
					eq = false
					break
				}
			}
			if op == token.EQL {
				return eq
			}
			return !eq
		}
	}
	// comparisons with nil
	switch op {
	case token.EQL, token.NEQ:
		eq, ok := in.eqValues(a, b)
		if ok {
			if op == token.EQL {
				return eq
			}
			return !eq
		}
	}
	if _, ok := a.(*Sym); ok {
		a = in.concretize(a)
	}
	if _, ok := b.(*Sym); ok {
		b = in.concretize(b)
	}
	switch x := a.(type) {
	case int64:
		if y, ok := b.(int64); ok {
			return in.intOp(op, x, y, opT, resT)
		}
	case string:
		if y, ok := b.(string); ok {
			switch op {
			case token.ADD:
				return x + y
			case token.EQL:
				return x == y
			case token.NEQ:
				return x != y
			case token.LSS:
				return x < y
			case token.LEQ:
				return x <= y
			case token.GTR:
				return x > y
			case token.GEQ:
				return x >= y
			}
		}
	case bool:
		if y, ok := b.(bool); ok {
			switch op {
			case token.EQL:
				return x == y
			case token.NEQ:
				return x != y
			case token.AND, token.LAND:
				return x && y
			case token.OR, token.LOR:
				return x || y
			}
		}
	}
	// symbolic
	sa, aSym := a.(*Sym)
	sb, bSym := b.(*Sym)
	if !aSym && !bSym {
		in.Undecided("binop %s on %s, %s", op, Show(a), Show(b))
	}
	switch op {
	case token.ADD, token.SUB:
		if aSym {
			if k, ok := b.(int64); ok && isIntType(resT) {
				if op == token.SUB {
					k = -k
				}
				return &Sym{Expr: sa.Expr, Off: sa.Off + k, T: resT, Dom: sa.Dom}
			}
		}
		if bSym && op == token.ADD {
			if k, ok := a.(int64); ok && isIntType(resT) {
				return &Sym{Expr: sb.Expr, Off: sb.Off + k, T: resT, Dom: sb.Dom}
			}
		}
		if aSym && bSym && op == token.SUB && sa.Expr == sb.Expr && isIntType(resT) {
			return sa.Off - sb.Off
		}
	case token.EQL, token.NEQ, token.LSS, token.LEQ, token.GTR, token.GEQ:
		if aSym && bSym && sa.Expr == sb.Expr && isIntType(opT) {
			return in.intOp(op, sa.Off, sb.Off, types.Typ[types.Int64], resT)
		}
		if isIntType(opT) {
			an, bn := Show(a), Show(b)
			name := "ord(" + an + "," + bn + ")"
			flip := false
			// canonical orientation: an already-consulted reverse atom is reused
			if _, ok := in.oracle.memo["ord("+bn+","+an+")"]; ok {
				name = "ord(" + bn + "," + an + ")"
				flip = true
			}
			o := in.Choose(name, []string{"<", "=", ">"}) - 1
			if flip {
				o = -o
			}
			switch op {
			case token.EQL:
				return o == 0
			case token.NEQ:
				return o != 0
			case token.LSS:
				return o < 0
			case token.LEQ:
				return o <= 0
			case token.GTR:
				return o > 0
			case token.GEQ:
				return o >= 0
			}
		}
		if op == token.EQL || op == token.NEQ {
			an, bn := Show(a), Show(b)
			if bn < an {
				an, bn = bn, an
			}
			eq := in.Choose("eq("+an+","+bn+")", []string{"false", "true"}) == 1
			if op == token.EQL {
				return eq
			}
			return !eq
		}
	}
	return &Sym{Expr: "(" + Show(a) + op.String() + Show(b) + ")", T: resT}
}

func isIntType(t types.Type) bool {
	if t == nil {
		return false
	}
	b, ok := t.Underlying().(*types.Basic)
	return ok && b.Info()&types.IsInteger != 0
}

func (in *Interp) intOp(op token.Token, x, y int64, opT, resT types.Type) Value {
	uns := isUnsigned(opT)
	switch op {
	case token.ADD:
		return wrapInt(x+y, resT)
	case token.SUB:
		return wrapInt(x-y, resT)
	case token.MUL:
		return wrapInt(x*y, resT)
	case token.QUO:
		if y == 0 {
			in.Panic(&Sym{Expr: "runtime error: integer divide by zero"})
		}
		if uns {
			return wrapInt(int64(uint64(x)/uint64(y)), resT)
		}
		return wrapInt(x/y, resT)
	case token.REM:
		if y == 0 {
			in.Panic(&Sym{Expr: "runtime error: integer divide by zero"})
		}
		if uns {
			return wrapInt(int64(uint64(x)%uint64(y)), resT)
		}
		return wrapInt(x%y, resT)
	case token.AND:
		return x & y
	case token.OR:
		return x | y
	case token.XOR:
		return wrapInt(x^y, resT)
	case token.AND_NOT:
		return x &^ y
	case token.SHL:
		return wrapInt(x<<uint64(y), resT)
	case token.SHR:
		if uns {
			return int64(uint64(x) >> uint64(y))
		}
		return x >> uint64(y)
	case token.EQL:
		return x == y
	case token.NEQ:
		return x != y
	case token.LSS:
		if uns {
			return uint64(x) < uint64(y)
		}
		return x < y
	case token.LEQ:
		if uns {
			return uint64(x) <= uint64(y)
		}
		return x <= y
	case token.GTR:
		if uns {
			return uint64(x) > uint64(y)
		}
		return x > y
	case token.GEQ:
		if uns {
			return uint64(x) >= uint64(y)
		}
		return x >= y
	}
	in.Undecided("integer op %s", op)
	return nil
}

// eqValues decides ==, returning ok=false when it should be handled symbolically.
func (in *Interp) eqValues(a, b Value) (eq bool, ok bool) {
	_, aNil := a.(NilV)
	_, bNil := b.(NilV)
	if aNil && bNil {
		return true, true
	}
	if aNil || bNil {
		other := a
		if aNil {
			other = b
		}
		switch o := other.(type) {
		case *Ptr, *SliceV, *MapV, *Closure, *Iface:
			return false, true
		case *Sym:
			return in.Choose("isnil("+o.Name()+")", []string{"false", "true"}) == 1, true
		}
		return false, false
	}
	switch x := a.(type) {
	case *Ptr:
		if y, ok := b.(*Ptr); ok {
			if x.Obj != y.Obj || x.SymAddr != y.SymAddr || len(x.Path) != len(y.Path) {
				return false, true
			}
			for i := range x.Path {
				if x.Path[i] != y.Path[i] {
					return false, true
				}
			}
			return true, true
		}
	case *Iface:
		if y, ok := b.(*Iface); ok {
			if !types.Identical(x.T, y.T) {
				return false, true
			}
			return in.eqValues(x.V, y.V)
		}
	case *StructV:
		if y, ok := b.(*StructV); ok && len(x.F) == len(y.F) {
			for i := range x.F {
				e, ok := in.eqValues(x.F[i], y.F[i])
				if !ok {
					return false, false
				}
				if !e {
					return false, true
				}
			}
			return true, true
		}
	case *Closure:
		if y, ok := b.(*Closure); ok {
			return x.Fn == y.Fn, true
		}
	case int64:
		if y, ok := b.(int64); ok {
			return x == y, true
		}
	case string:
		if y, ok := b.(string); ok {
			return x == y, true
		}
	case bool:
		if y, ok := b.(bool); ok {
			return x == y, true
		}
	}
	return false, false
}

// valueEq is map-key equality (concrete values only; symbols compare by name).
func (in *Interp) valueEq(a, b Value) bool {
	if sa, ok := a.(*Sym); ok {
		if sb, ok := b.(*Sym); ok {
			return sa.Name() == sb.Name()
		}
		return false
	}
	eq, ok := in.eqValues(a, b)
	return ok && eq
}

func (in *Interp) convert(v Value, from, to types.Type) Value {
	switch x := v.(type) {
	case int64:
		if isIntType(to) {
			return wrapInt(x, to)
		}
		if b, ok := to.Underlying().(*types.Basic); ok && b.Info()&types.IsString != 0 {
			return string(rune(x))
		}
		return &Sym{Expr: fmt.Sprintf("%s(%d)", typeShort(to), x), T: to}
	case string:
		if b, ok := to.Underlying().(*types.Basic); ok && b.Info()&types.IsString != 0 {
			return x
		}
		if sl, ok := to.Underlying().(*types.Slice); ok {
			arr := &ArrayV{}
			if b, ok := sl.Elem().Underlying().(*types.Basic); ok && b.Kind() == types.Int32 {
				for _, r := range x {
					arr.E = append(arr.E, int64(r))
				}
			} else {
				for i := 0; i < len(x); i++ {
					arr.E = append(arr.E, int64(x[i]))
				}
			}
			return &SliceV{Arr: in.NewObj(nil, arr, ""), Lo: 0, Hi: len(arr.E), Cap: len(arr.E)}
		}
	case *SliceV:
		if b, ok := to.Underlying().(*types.Basic); ok && b.Info()&types.IsString != 0 {
			arr := x.Arr.Val.(*ArrayV)
			var sb strings.Builder
			isRune := false
			if sl, ok := from.Underlying().(*types.Slice); ok {
				if eb, ok := sl.Elem().Underlying().(*types.Basic); ok && eb.Kind() == types.Int32 {
					isRune = true
				}
			}
			for i := x.Lo; i < x.Hi; i++ {
				n, ok := arr.E[i].(int64)
				if !ok {
					return &Sym{Expr: "string(" + Show(x) + ")", T: to}
				}
				if isRune {
					sb.WriteRune(rune(n))
				} else {
					sb.WriteByte(byte(n))
				}
			}
			return sb.String()
		}
		return x
	case NilV:
		if b, ok := to.Underlying().(*types.Basic); ok && b.Info()&types.IsString != 0 {
			return ""
		}
		return x
	case *Sym:
		return &Sym{Expr: x.Expr, Off: x.Off, T: to, Dom: x.Dom}
	}
	return v
}

func (in *Interp) index(x, idx Value, t types.Type) Value {
	idx = in.concretize(idx)
	switch a := x.(type) {
	case *ArrayV:
		if i, ok := idx.(int64); ok {
			if i < 0 || int(i) >= len(a.E) {
				in.Panic(&Sym{Expr: "runtime error: index out of range"})
			}
			return deepCopy(a.E[i])
		}
	case string:
		if i, ok := idx.(int64); ok {
			if i < 0 || int(i) >= len(a) {
				in.Panic(&Sym{Expr: "runtime error: index out of range"})
			}
			return int64(a[i])
		}
	case *Sym:
		return &Sym{Expr: a.Name() + "[" + Show(idx) + "]", T: t}
	}
	return &Sym{Expr: Show(x) + "[" + Show(idx) + "]", T: t}
}

func (in *Interp) indexAddr(x, idx Value, elem types.Type) Value {
	idx = in.concretize(idx)
	switch a := x.(type) {
	case *SliceV:
		i, ok := idx.(int64)
		if !ok {
			in.Undecided("symbolic index %s into concrete slice", Show(idx))
		}
		if i < 0 || int(i) >= a.Hi-a.Lo {
			in.Panic(&Sym{Expr: "runtime error: index out of range"})
		}
		return &Ptr{Obj: a.Arr, Path: []int{a.Lo + int(i)}, T: elem}
	case *Ptr: // pointer to array
		i, ok := idx.(int64)
		if !ok {
			in.Undecided("symbolic index %s into array", Show(idx))
		}
		if a.Obj == nil {
			return &Ptr{SymAddr: fmt.Sprintf("%s[%d]", a.SymAddr, i), T: elem}
		}
		return &Ptr{Obj: a.Obj, Path: append(append([]int{}, a.Path...), int(i)), T: elem}
	case NilV:
		in.Panic(&Sym{Expr: "runtime error: index out of range (nil slice)"})
	case *Sym:
		in.boundsCheck(a, idx)
		return &Ptr{SymAddr: a.Name() + "[" + Show(idx) + "]", T: elem}
	}
	in.Undecided("indexaddr of %s", Show(x))
	return nil
}

func (in *Interp) lookup(x *ssa.Lookup, m, k Value) Value {
	k = in.concretize(k)
	var res Value
	found := false
	var elemT types.Type
	switch mt := x.X.Type().Underlying().(type) {
	case *types.Map:
		elemT = mt.Elem()
	case *types.Basic:
		// string index
		s, ok1 := m.(string)
		i, ok2 := k.(int64)
		if ok1 && ok2 {
			if i < 0 || int(i) >= len(s) {
				in.Panic(&Sym{Expr: "runtime error: index out of range"})
			}
			return int64(s[i])
		}
		return &Sym{Expr: Show(m) + "[" + Show(k) + "]", T: x.Type()}
	}
	switch mm := m.(type) {
	case *MapV:
		for i := range mm.Keys {
			if in.valueEq(mm.Keys[i], k) {
				res, found = deepCopy(mm.Vals[i]), true
				break
			}
		}
		if !found {
			if _, isSym := k.(*Sym); isSym && len(mm.Keys) > 0 {
				in.Undecided("map lookup with symbolic key %s", Show(k))
			}
			res = in.Zero(elemT)
		}
	case NilV:
		res = in.Zero(elemT)
	case *Sym:
		name := mm.Name() + "[" + Show(k) + "]"
		if x.CommaOk {
			okv := in.Choose("has("+name+")", []string{"false", "true"}) == 1
			if !okv {
				return &Tuple{E: []Value{in.Zero(elemT), false}}
			}
			return &Tuple{E: []Value{&Sym{Expr: name, T: elemT}, true}}
		}
		return &Sym{Expr: name, T: elemT}
	default:
		in.Undecided("lookup in %s", Show(m))
	}
	if x.CommaOk {
		return &Tuple{E: []Value{res, found}}
	}
	return res
}

func (in *Interp) slice(fr *frame, x *ssa.Slice) Value {
	v := in.get(fr, x.X)
	geti := func(e ssa.Value, def int64) (int64, bool) {
		if e == nil {
			return def, true
		}
		val := in.concretize(in.get(fr, e))
		i, ok := val.(int64)
		return i, ok
	}
	switch s := v.(type) {
	case string:
		lo, ok1 := geti(x.Low, 0)
		hi, ok2 := geti(x.High, int64(len(s)))
		if ok1 && ok2 {
			if lo < 0 || hi > int64(len(s)) || lo > hi {
				in.Panic(&Sym{Expr: "runtime error: slice bounds out of range"})
			}
			return s[lo:hi]
		}
	case *SliceV:
		lo, ok1 := geti(x.Low, 0)
		hi, ok2 := geti(x.High, int64(s.Hi-s.Lo))
		mx, ok3 := geti(x.Max, int64(s.Cap-s.Lo))
		if ok1 && ok2 && ok3 {
			if lo < 0 || hi > int64(s.Cap-s.Lo) || lo > hi || mx > int64(s.Cap-s.Lo) || hi > mx {
				in.Panic(&Sym{Expr: "runtime error: slice bounds out of range"})
			}
			return &SliceV{Arr: s.Arr, Lo: s.Lo + int(lo), Hi: s.Lo + int(hi), Cap: s.Lo + int(mx)}
		}
		in.Undecided("symbolic bounds slicing a concrete slice")
	case NilV:
		return NilV{}
	case *Ptr: // *array
		if arr, ok := in.load(s, nil).(*ArrayV); ok && s.Obj != nil && len(s.Path) == 0 {
			lo, ok1 := geti(x.Low, 0)
			hi, ok2 := geti(x.High, int64(len(arr.E)))
			if ok1 && ok2 {
				return &SliceV{Arr: s.Obj, Lo: int(lo), Hi: int(hi), Cap: len(arr.E)}
			}
		}
	case *Sym:
		lo, hi := "", ""
		if x.Low != nil {
			lo = Show(in.get(fr, x.Low))
		}
		if x.High != nil {
			hi = Show(in.get(fr, x.High))
		}
		return &Sym{Expr: s.Name() + "[" + lo + ":" + hi + "]", T: x.Type()}
	}
	in.Undecided("slice of %s", Show(v))
	return nil
}

func (in *Interp) typeAssert(x *ssa.TypeAssert, v Value) Value {
	fail := func() Value {
		if x.CommaOk {
			return &Tuple{E: []Value{in.Zero(x.AssertedType), false}}
		}
		in.Panic(&Sym{Expr: "runtime error: interface conversion to " + typeShort(x.AssertedType)})
		return nil
	}
	switch iv := v.(type) {
	case NilV:
		return fail()
	case *Iface:
		ok := false
		if ai, isI := x.AssertedType.Underlying().(*types.Interface); isI {
			ok = types.Implements(iv.T, ai)
			if ok {
				if x.CommaOk {
					return &Tuple{E: []Value{iv, true}}
				}
				return iv
			}
			return fail()
		}
		ok = types.Identical(iv.T, x.AssertedType)
		if !ok {
			return fail()
		}
		if x.CommaOk {
			return &Tuple{E: []Value{iv.V, true}}
		}
		return iv.V
	case *Sym:
		name := iv.Name() + ".(" + typeShort(x.AssertedType) + ")"
		if intr, ok := in.cfg.Intrinsics["assert:"+typeShort(x.AssertedType)]; ok {
			if ret, handled := intr(in, []Value{iv, x.CommaOk}); handled {
				return ret
			}
		}
		okv := in.Choose("is("+name+")", []string{"false", "true"}) == 1
		if !okv {
			return fail()
		}
		var res Value = &Sym{Expr: name, T: x.AssertedType}
		if x.CommaOk {
			return &Tuple{E: []Value{res, true}}
		}
		return res
	}
	in.Undecided("type assertion on %s", Show(v))
	return nil
}

// boundsCheck panics like the Go runtime when an index into an opaque slice of declared length is
// provably out of range.
func (in *Interp) boundsCheck(a *Sym, idx Value) {
	l, ok := in.SymLens[a.Name()]
	if !ok {
		return
	}
	ls, ok1 := l.(*Sym)
	is, ok2 := idx.(*Sym)
	if ok1 && ok2 && ls.Expr == is.Expr {
		if is.Off >= ls.Off {
			in.Panic(&Sym{Expr: "runtime error: index out of range"})
		}
		return
	}
	if li, ok := l.(int64); ok {
		if ii, ok := idx.(int64); ok && (ii < 0 || ii >= li) {
			in.Panic(&Sym{Expr: "runtime error: index out of range"})
		}
	}
}

// CallValue calls a function value (closure or bound method).
func (in *Interp) CallValue(c *Closure, args []Value) Value {
	if len(c.Bind) == 0 {
		return in.Call(c.Fn, args)
	}
	return in.callClosure(c, args)
}

// RunHandler calls a deferred function as if the goroutine were panicking with val: recover() inside
// it returns val. It reports whether the handler recovered (absorbed) the panic; a panic raised by
// the handler itself propagates as usual.
func (in *Interp) RunHandler(c *Closure, args []Value, val Value) (recovered bool) {
	savedP, savedR, savedAt := in.panicking, in.recovered, in.recoverAt
	in.panicking, in.recovered, in.recoverAt = &goPanic{val: val}, false, in.depth+1
	defer func() { in.panicking, in.recovered, in.recoverAt = savedP, savedR, savedAt }()
	in.CallValue(c, args)
	return in.recovered
}

// GlobalPtr returns a pointer to a package-level variable (running the package initialiser first).
func (in *Interp) GlobalPtr(g *ssa.Global) *Ptr {
	return &Ptr{Obj: in.global(g), T: g.Type().(*types.Pointer).Elem()}
}

// Load / Store are exported for drivers that build or inspect state.
func (in *Interp) Load(p Value) Value { return in.load(p, nil) }
func (in *Interp) Store(p, v Value)   { in.store(p, v) }

// FieldPtr returns a pointer to a named field of the struct p points to.
func (in *Interp) FieldPtr(p *Ptr, name string) *Ptr {
	t := p.T
	st, ok := t.Underlying().(*types.Struct)
	if !ok {
		in.Undecided("FieldPtr on non-struct %s", typeShort(t))
	}
	for i := 0; i < st.NumFields(); i++ {
		if st.Field(i).Name() == name {
			if p.Obj == nil {
				return &Ptr{SymAddr: p.SymAddr + "." + name, T: st.Field(i).Type()}
			}
			return &Ptr{Obj: p.Obj, Path: append(append([]int{}, p.Path...), i), T: st.Field(i).Type()}
		}
	}
	in.Undecided("no field %s in %s", name, typeShort(t))
	return nil
}

// NewStruct allocates a zero struct of type t and returns a pointer to it.
func (in *Interp) NewStruct(t types.Type, tag string) *Ptr {
	return &Ptr{Obj: in.NewObj(t, in.Zero(t), tag), T: t}
}

// MakeSliceOf builds a concrete slice.
func (in *Interp) MakeSliceOf(vals []Value, capacity int) *SliceV {
	if capacity < len(vals) {
		capacity = len(vals)
	}
	arr := &ArrayV{E: make([]Value, capacity)}
	copy(arr.E, vals)
	for i := len(vals); i < capacity; i++ {
		arr.E[i] = int64(0)
	}
	return &SliceV{Arr: in.NewObj(nil, arr, ""), Lo: 0, Hi: len(vals), Cap: capacity}
}

// SliceElems returns the elements of a concrete slice.
func SliceElems(v Value) ([]Value, bool) {
	switch s := v.(type) {
	case NilV:
		return nil, true
	case *SliceV:
		arr := s.Arr.Val.(*ArrayV)
		return arr.E[s.Lo:s.Hi], true
	}
	return nil, false
}
