package pe

import (
	"fmt"
	"sort"
	"strings"
)

// Clone copies the object graph reachable from v (heap cells, maps, slices' backing arrays).
func Clone(v Value) Value {
	c := &cloner{objs: map[*Obj]*Obj{}, maps: map[*MapV]*MapV{}}
	return c.clone(v)
}

type cloner struct {
	objs map[*Obj]*Obj
	maps map[*MapV]*MapV
}

func (c *cloner) obj(o *Obj) *Obj {
	if o == nil {
		return nil
	}
	if n, ok := c.objs[o]; ok {
		return n
	}
	n := &Obj{ID: o.ID, T: o.T, Tag: o.Tag}
	c.objs[o] = n
	n.Val = c.clone(o.Val)
	return n
}

func (c *cloner) clone(v Value) Value {
	switch x := v.(type) {
	case *Ptr:
		return &Ptr{Obj: c.obj(x.Obj), Path: append([]int(nil), x.Path...), SymAddr: x.SymAddr, T: x.T}
	case *StructV:
		n := &StructV{T: x.T, F: make([]Value, len(x.F))}
		for i, f := range x.F {
			n.F[i] = c.clone(f)
		}
		return n
	case *ArrayV:
		n := &ArrayV{E: make([]Value, len(x.E))}
		for i, f := range x.E {
			n.E[i] = c.clone(f)
		}
		return n
	case *SliceV:
		return &SliceV{Arr: c.obj(x.Arr), Lo: x.Lo, Hi: x.Hi, Cap: x.Cap}
	case *MapV:
		if n, ok := c.maps[x]; ok {
			return n
		}
		n := &MapV{ID: x.ID}
		c.maps[x] = n
		for i := range x.Keys {
			n.Keys = append(n.Keys, c.clone(x.Keys[i]))
			n.Vals = append(n.Vals, c.clone(x.Vals[i]))
		}
		return n
	case *Iface:
		return &Iface{T: x.T, V: c.clone(x.V)}
	case *Closure:
		n := &Closure{Fn: x.Fn}
		for _, b := range x.Bind {
			n.Bind = append(n.Bind, c.clone(b))
		}
		return n
	case *Tuple:
		n := &Tuple{}
		for _, e := range x.E {
			n.E = append(n.E, c.clone(e))
		}
		return n
	case *Sym:
		cp := *x
		return &cp
	}
	return v
}

// Canon serialises the graph reachable from v into a canonical string: heap cells are numbered in
// visiting order, slices show only their live elements (spare capacity is not part of the state
// unless showCap is set), closures print their function name. rename, when non-nil, can rewrite
// symbols.
func Canon(v Value, rename func(s *Sym) string) string {
	c := &canon{ids: map[*Obj]int{}, mids: map[*MapV]int{}, rename: rename}
	var sb strings.Builder
	c.write(&sb, v, 0)
	return sb.String()
}

type canon struct {
	ids    map[*Obj]int
	mids   map[*MapV]int
	rename func(s *Sym) string
}

func (c *canon) write(sb *strings.Builder, v Value, depth int) {
	if depth > 40 {
		sb.WriteString("…")
		return
	}
	switch x := v.(type) {
	case nil:
		sb.WriteString("<none>")
	case bool, int64:
		fmt.Fprintf(sb, "%v", x)
	case string:
		fmt.Fprintf(sb, "%q", x)
	case NilV:
		sb.WriteString("nil")
	case *Sym:
		if c.rename != nil {
			sb.WriteString("‹" + c.rename(x) + "›")
		} else {
			sb.WriteString("‹" + x.Name() + "›")
		}
	case *Ptr:
		if x.Obj == nil {
			sb.WriteString("&‹" + x.SymAddr + "›")
			return
		}
		id, seen := c.ids[x.Obj]
		if !seen {
			id = len(c.ids) + 1
			c.ids[x.Obj] = id
		}
		fmt.Fprintf(sb, "&o%d%v", id, pathStr(x.Path))
		if !seen {
			sb.WriteString("=")
			c.write(sb, x.Obj.Val, depth+1)
		}
	case *StructV:
		sb.WriteString(typeShort(x.T) + "{")
		for i, f := range x.F {
			if i > 0 {
				sb.WriteString(",")
			}
			c.write(sb, f, depth+1)
		}
		sb.WriteString("}")
	case *ArrayV:
		sb.WriteString("[")
		for i, f := range x.E {
			if i > 0 {
				sb.WriteString(",")
			}
			c.write(sb, f, depth+1)
		}
		sb.WriteString("]")
	case *SliceV:
		arr := x.Arr.Val.(*ArrayV)
		sb.WriteString("s[")
		for i := x.Lo; i < x.Hi; i++ {
			if i > x.Lo {
				sb.WriteString(",")
			}
			c.write(sb, arr.E[i], depth+1)
		}
		sb.WriteString("]")
	case *MapV:
		id, seen := c.mids[x]
		if !seen {
			id = len(c.mids) + 1
			c.mids[x] = id
		}
		fmt.Fprintf(sb, "m%d", id)
		if !seen {
			var parts []string
			for i := range x.Keys {
				var kb, vb strings.Builder
				c.write(&kb, x.Keys[i], depth+1)
				c.write(&vb, x.Vals[i], depth+1)
				parts = append(parts, kb.String()+":"+vb.String())
			}
			sort.Strings(parts)
			sb.WriteString("{" + strings.Join(parts, ",") + "}")
		}
	case *Iface:
		sb.WriteString(typeShort(x.T) + "(")
		c.write(sb, x.V, depth+1)
		sb.WriteString(")")
	case *Closure:
		sb.WriteString(FuncName(x.Fn))
		if len(x.Bind) > 0 {
			sb.WriteString("<")
			for i, b := range x.Bind {
				if i > 0 {
					sb.WriteString(",")
				}
				c.write(sb, b, depth+1)
			}
			sb.WriteString(">")
		}
	case *Tuple:
		sb.WriteString("(")
		for i, e := range x.E {
			if i > 0 {
				sb.WriteString(",")
			}
			c.write(sb, e, depth+1)
		}
		sb.WriteString(")")
	default:
		fmt.Fprintf(sb, "%T", v)
	}
}

func pathStr(p []int) string {
	if len(p) == 0 {
		return ""
	}
	return fmt.Sprint(p)
}

// Walk visits every value reachable from v (each heap cell once). fn may replace symbols in place
// by returning a non-nil replacement for the slot.
func Walk(v Value, fn func(slot Value) Value) Value {
	w := &walker{seen: map[*Obj]bool{}, mseen: map[*MapV]bool{}, fn: fn}
	return w.walk(v)
}

type walker struct {
	seen  map[*Obj]bool
	mseen map[*MapV]bool
	fn    func(Value) Value
}

func (w *walker) walk(v Value) Value {
	if r := w.fn(v); r != nil {
		return r
	}
	switch x := v.(type) {
	case *Ptr:
		if x.Obj != nil && !w.seen[x.Obj] {
			w.seen[x.Obj] = true
			x.Obj.Val = w.walk(x.Obj.Val)
		}
	case *StructV:
		for i := range x.F {
			x.F[i] = w.walk(x.F[i])
		}
	case *ArrayV:
		for i := range x.E {
			x.E[i] = w.walk(x.E[i])
		}
	case *SliceV:
		if !w.seen[x.Arr] {
			w.seen[x.Arr] = true
			x.Arr.Val = w.walk(x.Arr.Val)
		}
	case *MapV:
		if !w.mseen[x] {
			w.mseen[x] = true
			for i := range x.Vals {
				x.Vals[i] = w.walk(x.Vals[i])
			}
		}
	case *Iface:
		x.V = w.walk(x.V)
	case *Closure:
		for i := range x.Bind {
			x.Bind[i] = w.walk(x.Bind[i])
		}
	case *Tuple:
		for i := range x.E {
			x.E[i] = w.walk(x.E[i])
		}
	}
	return v
}
