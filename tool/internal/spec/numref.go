package spec

// NumRef is the RFC 8259 number automaton (a whole string must be one number):
// number = [ minus ] int [ frac ] [ exp ]; int = zero / ( digit1-9 *DIGIT ); frac = "." 1*DIGIT;
// exp = ("e"/"E") [ "-" / "+" ] 1*DIGIT.
type NumRef int

const (
	NumStart NumRef = iota
	NumNeg
	NumZero
	NumInt
	NumDot
	NumFrac
	NumE
	NumESign
	NumExp
)

var numNames = map[NumRef]string{NumStart: "start", NumNeg: "minus", NumZero: "zero", NumInt: "int", NumDot: "point", NumFrac: "frac", NumE: "e", NumESign: "esign", NumExp: "exp"}

func (n NumRef) String() string { return numNames[n] }

// Step returns the next state, or ok=false when the byte cannot continue a number.
func (n NumRef) Step(c byte) (NumRef, bool) {
	d := c >= '0' && c <= '9'
	switch n {
	case NumStart:
		switch {
		case c == '-':
			return NumNeg, true
		case c == '0':
			return NumZero, true
		case d:
			return NumInt, true
		}
	case NumNeg:
		switch {
		case c == '0':
			return NumZero, true
		case d:
			return NumInt, true
		}
	case NumZero, NumInt:
		switch {
		case n == NumInt && d:
			return NumInt, true
		case c == '.':
			return NumDot, true
		case c == 'e' || c == 'E':
			return NumE, true
		}
	case NumDot:
		if d {
			return NumFrac, true
		}
	case NumFrac:
		switch {
		case d:
			return NumFrac, true
		case c == 'e' || c == 'E':
			return NumE, true
		}
	case NumE:
		switch {
		case c == '+' || c == '-':
			return NumESign, true
		case d:
			return NumExp, true
		}
	case NumESign, NumExp:
		if d {
			return NumExp, true
		}
	}
	return n, false
}

// Accepting reports whether a number may end in this state.
func (n NumRef) Accepting() bool {
	return n == NumZero || n == NumInt || n == NumFrac || n == NumExp
}
