// Package spec holds the reference models transcribed from the property statements and RFC 8259.
package spec

import (
	"fmt"
	"strings"
)

// Ev is a lexical event with its span written symbolically: "L" is the byte just consumed, "L-1" the
// byte before it, "p<k>" the begin offset of the k-th open event (0 = outermost).
type Ev struct {
	Type, Begin, End string
}

func (e Ev) String() string { return fmt.Sprintf("%s[%s,%s]", e.Type, e.Begin, e.End) }

// JRef is a reference byte-at-a-time transducer for one RFC 8259 JSON text (C05), emitting the
// lexical events that C06 describes:
//
//   - every value is bracketed: literal-begin/-end around scalars (span = exactly the token),
//     object-begin/-end and array-begin/-end around containers (span = opening to closing bracket);
//   - inside an object every key is key-begin/key-end (span = the quoted key token) and every value is
//     wrapped in value-begin/value-end; inside an array every element is wrapped in
//     item-begin/item-end (wrapper span = span of the wrapped value);
//   - an event is emitted on the byte that determines it: openings on their first byte, closings of
//     scalars/wrappers on the first byte after the token (or at end of input), closings of
//     containers on the bracket.
//
// RFC 8259: ws = SP / HT / LF / CR; value = object / array / string / number / true / false / null;
// number = [-] (0 / [1-9] *DIGIT) [. 1*DIGIT] [(e/E) [+/-] 1*DIGIT]; string = " *(unescaped / \ escape) "
// with unescaped = %x20-21 / %x23-5B / %x5D-10FFFF (bytes >= 0x80 are accepted without UTF-8
// validation, as the property only names control bytes) and escape = one of "\/bfnrt or uXXXX.
type JRef struct {
	Stack    []string // open events (types), outermost first
	Phase    int
	Lit      int  // literal automaton state (when Phase == phLiteral or phKey)
	Any      bool // some event has been emitted
	Trailing bool // AllowTrailingNonSpaceCharacters
	Ended    bool // EndTop emitted (trailing mode): the rest of the input is ignored
}

const (
	phRootValue = iota
	phObjKeyOrEnd
	phObjKey
	phKey       // inside a key string
	phAfterKeyQ // key string closed, key-end not yet emitted
	phColon
	phObjValue
	phLiteral
	phAfterValue // a container value has been closed; wrappers not yet closed
	phAfterObjValue
	phArrItemOrEnd
	phArrItem
	phAfterArrItem
	phEndTop
)

// literal automaton states
const (
	lNone = iota
	lStr
	lStrEsc
	lStrU0
	lStrU1
	lStrU2
	lStrU3
	lStrDone // closing quote read
	lNeg
	lZero
	lInt
	lDot
	lFrac
	lE
	lESign
	lExp
	lT
	lTr
	lTru
	lF
	lFa
	lFal
	lFals
	lN
	lNu
	lNul
	lKwDone
)

func (r JRef) Key() string {
	return fmt.Sprintf("%s|ph%d|l%d|any=%v|tr=%v|end=%v", strings.Join(r.Stack, ","), r.Phase, r.Lit, r.Any, r.Trailing, r.Ended)
}

// Depth is the number of open containers.
func (r JRef) Depth() int {
	n := 0
	for _, s := range r.Stack {
		if s == "ObjectBegin" || s == "ArrayBegin" {
			n++
		}
	}
	return n
}

func isWS(c byte) bool    { return c == ' ' || c == '\t' || c == '\n' || c == '\r' }
func isDigit(c byte) bool { return c >= '0' && c <= '9' }
func isHex(c byte) bool {
	return isDigit(c) || c >= 'a' && c <= 'f' || c >= 'A' && c <= 'F'
}

// litComplete reports whether the literal may end here.
func litComplete(l int) bool {
	switch l {
	case lStrDone, lZero, lInt, lFrac, lExp, lKwDone:
		return true
	}
	return false
}

// litStep advances the literal automaton. res: 0 continue, 1 reject, 2 the literal ended before c.
func litStep(l int, c byte) (next int, res int) {
	switch l {
	case lStr:
		switch {
		case c == '"':
			return lStrDone, 0
		case c == '\\':
			return lStrEsc, 0
		case c < 0x20:
			return l, 1
		}
		return lStr, 0
	case lStrEsc:
		switch c {
		case '"', '\\', '/', 'b', 'f', 'n', 'r', 't':
			return lStr, 0
		case 'u':
			return lStrU0, 0
		}
		return l, 1
	case lStrU0, lStrU1, lStrU2:
		if isHex(c) {
			return l + 1, 0
		}
		return l, 1
	case lStrU3:
		if isHex(c) {
			return lStr, 0
		}
		return l, 1
	case lStrDone, lKwDone:
		return l, 2
	case lNeg:
		if c == '0' {
			return lZero, 0
		}
		if c >= '1' && c <= '9' {
			return lInt, 0
		}
		return l, 1
	case lZero, lInt:
		if l == lInt && isDigit(c) {
			return lInt, 0
		}
		if c == '.' {
			return lDot, 0
		}
		if c == 'e' || c == 'E' {
			return lE, 0
		}
		return l, 2
	case lDot:
		if isDigit(c) {
			return lFrac, 0
		}
		return l, 1
	case lFrac:
		if isDigit(c) {
			return lFrac, 0
		}
		if c == 'e' || c == 'E' {
			return lE, 0
		}
		return l, 2
	case lE:
		if c == '+' || c == '-' {
			return lESign, 0
		}
		if isDigit(c) {
			return lExp, 0
		}
		return l, 1
	case lESign:
		if isDigit(c) {
			return lExp, 0
		}
		return l, 1
	case lExp:
		if isDigit(c) {
			return lExp, 0
		}
		return l, 2
	}
	kw := map[int]struct {
		c    byte
		next int
	}{
		lT: {'r', lTr}, lTr: {'u', lTru}, lTru: {'e', lKwDone},
		lF: {'a', lFa}, lFa: {'l', lFal}, lFal: {'s', lFals}, lFals: {'e', lKwDone},
		lN: {'u', lNu}, lNu: {'l', lNul}, lNul: {'l', lKwDone},
	}
	if k, ok := kw[l]; ok {
		if c == k.c {
			return k.next, 0
		}
		return l, 1
	}
	return l, 1
}

func litStart(c byte) int {
	switch {
	case c == '"':
		return lStr
	case c == '-':
		return lNeg
	case c == '0':
		return lZero
	case c >= '1' && c <= '9':
		return lInt
	case c == 't':
		return lT
	case c == 'f':
		return lF
	case c == 'n':
		return lN
	}
	return lNone
}

func (r *JRef) push(t string) { r.Stack = append(append([]string{}, r.Stack...), t) }
func (r *JRef) pop() string {
	t := r.Stack[len(r.Stack)-1]
	r.Stack = append([]string{}, r.Stack[:len(r.Stack)-1]...)
	return t
}
func (r *JRef) top() string {
	if len(r.Stack) == 0 {
		return ""
	}
	return r.Stack[len(r.Stack)-1]
}
func (r *JRef) tag() string { return fmt.Sprintf("p%d", len(r.Stack)-1) }

// Step consumes one byte.
func (r JRef) Step(c byte) (next JRef, evs []Ev, reject bool) {
	if r.Ended {
		return r, nil, false
	}
	emit := func(t, b, e string) {
		evs = append(evs, Ev{t, b, e})
		r.Any = true
	}
	open := func(t string) {
		emit(t, "L", "L")
		r.push(t)
	}
	closeTop := func(t, end string) {
		b := r.tag()
		r.pop()
		emit(t, b, end)
	}
	// beginValue handles the first byte of a value; wrapper is "" / ObjectValueBegin / ArrayItemBegin.
	beginValue := func(wrapper string) bool {
		switch {
		case c == '{':
			if wrapper != "" {
				open(wrapper)
			}
			open("ObjectBegin")
			r.Phase = phObjKeyOrEnd
		case c == '[':
			if wrapper != "" {
				open(wrapper)
			}
			open("ArrayBegin")
			r.Phase = phArrItemOrEnd
		default:
			l := litStart(c)
			if l == lNone {
				return false
			}
			if wrapper != "" {
				open(wrapper)
			}
			open("LiteralBegin")
			r.Lit = l
			r.Phase = phLiteral
		}
		return true
	}
	for {
		switch r.Phase {
		case phRootValue:
			if isWS(c) {
				return r, evs, false
			}
			return r, evs, !beginValue("")
		case phObjKeyOrEnd, phObjKey:
			if isWS(c) {
				return r, evs, false
			}
			if c == '}' && r.Phase == phObjKeyOrEnd {
				closeTop("ObjectEnd", "L")
				r.Phase = phAfterValue
				return r, evs, false
			}
			if c == '"' {
				open("ObjectKeyBegin")
				r.Lit = lStr
				r.Phase = phKey
				return r, evs, false
			}
			return r, evs, true
		case phKey:
			nl, res := litStep(r.Lit, c)
			if res == 1 {
				return r, evs, true
			}
			r.Lit = nl
			if nl == lStrDone {
				r.Phase = phAfterKeyQ
				r.Lit = lNone
			}
			return r, evs, false
		case phAfterKeyQ:
			closeTop("ObjectKeyEnd", "L-1")
			r.Phase = phColon
			continue
		case phColon:
			if isWS(c) {
				return r, evs, false
			}
			if c == ':' {
				r.Phase = phObjValue
				return r, evs, false
			}
			return r, evs, true
		case phObjValue:
			if isWS(c) {
				return r, evs, false
			}
			return r, evs, !beginValue("ObjectValueBegin")
		case phLiteral:
			nl, res := litStep(r.Lit, c)
			switch res {
			case 1:
				return r, evs, true
			case 0:
				r.Lit = nl
				return r, evs, false
			}
			closeTop("LiteralEnd", "L-1")
			r.Lit = lNone
			r.Phase = phAfterValue
			continue
		case phAfterValue:
			switch r.top() {
			case "":
				r.Phase = phEndTop
			case "ObjectValueBegin":
				closeTop("ObjectValueEnd", "L-1")
				r.Phase = phAfterObjValue
			case "ArrayItemBegin":
				closeTop("ArrayItemEnd", "L-1")
				r.Phase = phAfterArrItem
			default:
				panic("reference transducer: impossible stack top " + r.top())
			}
			continue
		case phAfterObjValue:
			if isWS(c) {
				return r, evs, false
			}
			if c == ',' {
				r.Phase = phObjKey
				return r, evs, false
			}
			if c == '}' {
				closeTop("ObjectEnd", "L")
				r.Phase = phAfterValue
				return r, evs, false
			}
			return r, evs, true
		case phArrItemOrEnd:
			if isWS(c) {
				return r, evs, false
			}
			if c == ']' {
				closeTop("ArrayEnd", "L")
				r.Phase = phAfterValue
				return r, evs, false
			}
			return r, evs, !beginValue("ArrayItemBegin")
		case phArrItem:
			if isWS(c) {
				return r, evs, false
			}
			return r, evs, !beginValue("ArrayItemBegin")
		case phAfterArrItem:
			if isWS(c) {
				return r, evs, false
			}
			if c == ',' {
				r.Phase = phArrItem
				return r, evs, false
			}
			if c == ']' {
				closeTop("ArrayEnd", "L")
				r.Phase = phAfterValue
				return r, evs, false
			}
			return r, evs, true
		case phEndTop:
			if isWS(c) {
				return r, evs, false
			}
			if !r.Trailing {
				return r, evs, true
			}
			emit("EndTop", "L", "L")
			r.Ended = true
			return r, evs, false
		}
		panic("reference transducer: unknown phase")
	}
}

// EOF ends the input: the events still owed and whether the text is accepted. At end of input "L" is
// the last byte of the input.
func (r JRef) EOF() (evs []Ev, accept bool) {
	if r.Ended {
		return nil, true
	}
	if r.Phase == phLiteral && litComplete(r.Lit) {
		evs = append(evs, Ev{"LiteralEnd", r.tag(), "L"})
		r.pop()
		r.Any = true
		return evs, len(r.Stack) == 0
	}
	if len(r.Stack) == 0 && r.Any {
		return nil, true
	}
	return nil, false
}

// InString reports whether the reference is inside a string token (between the quotes, after a
// backslash, or inside a \u escape): what follows there is plain JSON string syntax in every notation.
func (r JRef) InString() bool {
	switch r.Lit {
	case lStr, lStrEsc, lStrU0, lStrU1, lStrU2, lStrU3:
		return true
	}
	return false
}
