#!/bin/sh
# Runs the repository's own suite (guard off) and checks that the only failing test is the
# baseline's always-failing TestEnum_String. usage: tools/suite.sh [repo-dir]
export GOFLAGS=-mod=mod GOPROXY=off GOSUMDB=off GOTOOLCHAIN=local
cd "${1:-/repo}" || exit 2
out=$(go test -vet=off -count=1 ./... 2>&1)
fails=$(printf '%s\n' "$out" | grep -E '^--- FAIL|^FAIL|panic:|cannot|\[build failed\]' | grep -v -E '^--- FAIL: TestEnum_String|^FAIL$|^FAIL\s+github.com/jsightapi/jsight-schema-go-library/notations/jschema/internal/schema/constraint\s')
if [ -n "$fails" ]; then printf '%s\n' "$out" | tail -60; echo "SUITE: unexpected failures"; exit 1; fi
echo "SUITE: ok (only baseline failure TestEnum_String)"
