#!/bin/sh
# Runs the repository's own suite (guard off) and checks that the only failing test is the
# baseline's always-failing TestEnum_String. usage: tools/suite.sh [repo-dir] [--all-cases]
# --all-cases repeats the run with GOEXPERIMENT=loopvar: the module says go 1.19, so table tests that
# call t.Parallel() inside `for n, c := range cc` run every subtest with the *last* case of a random
# map order; with per-iteration loop variables every pinned case is really exercised (a fix that
# contradicts a pinned case otherwise shows up only as a rare flake).
export GOFLAGS=-mod=mod GOPROXY=off GOSUMDB=off GOTOOLCHAIN=local
cd "${1:-/repo}" || exit 2
run() {
  out=$("$@" go test -vet=off -count=1 ./... 2>&1)
  fails=$(printf '%s\n' "$out" | grep -E '^--- FAIL|^FAIL|panic:|cannot|\[build failed\]' | grep -v -E '^--- FAIL: TestEnum_String|^FAIL$|^FAIL\s+github.com/jsightapi/jsight-schema-go-library/notations/jschema/internal/schema/constraint\s')
  if [ -n "$fails" ]; then printf '%s\n' "$out" | tail -60; echo "SUITE: unexpected failures"; exit 1; fi
}
run env
if [ "${2:-}" = "--all-cases" ]; then run env GOEXPERIMENT=loopvar; echo "SUITE: ok with per-iteration loop variables too"; fi
echo "SUITE: ok (only baseline failure TestEnum_String)"
