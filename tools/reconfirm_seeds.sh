#!/bin/sh
# usage: tools/reconfirm_seeds.sh [N]
# Re-confirms every stored seeded change against the *current* /repo (fixes made after a seed was
# stored may have changed what it does): in a scratch copy (removed afterwards) the demonstration must
# pass without the change and fail with it, and the changed tree must build. Prints one line per seed;
# nothing of /verif's checks runs here.
cd /verif
N=${1:-4}
export GOFLAGS=-mod=mod GOPROXY=off GOSUMDB=off GOTOOLCHAIN=local GOWORK=off
ls -d seeded/C*/ | sed 's#/$##' | xargs -P "$N" -I{} sh -c '
d={}; b=$(basename "$d")
run=$(python3 -c "import json;m=json.load(open(\"$d/meta.json\"))[\"demonstration\"];print(m[\"place_in\"]);print(m[\"run\"])")
place=$(echo "$run" | sed -n 1p); cmd=$(echo "$run" | sed -n 2p)
S=$(mktemp -d /tmp/reconf.XXXXXX)
rsync -a --exclude .git /repo/ "$S/"
cp "$d/demo_test.go" "$S/$place/zz_seed_demo_test.go"
w=$(cd "$S" && $cmd 2>&1 | grep -E "^(ok|FAIL|---|panic)" | head -1 | cut -c1-40)
if ! (cd "$S" && patch -p1 -s < "/verif/$d/patch.diff" >/dev/null 2>&1); then echo "$b: PATCH-DOES-NOT-APPLY"; rm -rf "$S"; exit 0; fi
if ! (cd "$S" && go build ./... >/dev/null 2>&1); then echo "$b: DOES-NOT-BUILD"; rm -rf "$S"; exit 0; fi
c=$(cd "$S" && $cmd 2>&1 | grep -E "^(ok|FAIL|--- FAIL|panic)" | head -1 | cut -c1-40)
rm -rf "$S"
case "$w" in ok*) wo=passes;; *) wo="FAILS-WITHOUT($w)";; esac
case "$c" in ok*) wi=PASSES-WITH;; *) wi=fails;; esac
echo "$b: without=$wo with=$wi"
' | sort -t- -k1,1 -k2,2n
