#!/bin/sh
# usage: tools/selftest.sh [pattern]      (sequential)
#        tools/selftest.sh --par N        (N mutants at a time; same results file)
# Tests the checker both ways on scratch copies of /repo (outside /repo and /verif, removed after each):
#   mutants/break-*.diff  must make at least one check report a violation (and name the expected rule
#                         when mutants/expect.txt lists one);
#   mutants/benign-*.diff must leave every check silent.
# Writes mutants/RESULTS.md. Not part of any registered check: it only re-runs the analyser on edited
# source; nothing of the library is executed.
set -u
cd /verif
if [ "${1:-}" = "--par" ]; then
  N=${2:-3}
  ls mutants/*.diff | xargs -P "$N" -I{} sh -c 'b=$(basename {} .diff); SELFTEST_ONE=1 tools/selftest.sh "$b.diff" > /tmp/selftest.$b.out 2>&1'
  OUT=mutants/RESULTS.md
  { echo "# Self-test over /verif/mutants ($(date -u +%Y-%m-%d))"; echo; echo "| mutant | expectation | checks that fired (rules) | verdict |"; echo "|--------|-------------|---------------------------|---------|"; cat /tmp/selftest.*.row 2>/dev/null | sort; } > "$OUT"
  cat /tmp/selftest.*.out | grep -E ": (ok|MISSED|FALSE-ALARM|skipped)" | sort
  bad=$(grep -c -E "MISSED|FALSE-ALARM" "$OUT")
  rm -f /tmp/selftest.*.out /tmp/selftest.*.row
  [ "$bad" = 0 ]; exit $?
fi
PAT=${1:-}
OUT=mutants/RESULTS.md.tmp
[ -n "${SELFTEST_ONE:-}" ] && OUT=/tmp/selftest.$(basename "$PAT" .diff).tmp
: > "$OUT"
echo "# Self-test over /verif/mutants ($(date -u +%Y-%m-%d))" >> "$OUT"
echo >> "$OUT"
echo "| mutant | expectation | checks that fired (rules) | verdict |" >> "$OUT"
echo "|--------|-------------|---------------------------|---------|" >> "$OUT"
bad=0
for m in mutants/*.diff; do
  case "$m" in *"$PAT"*) ;; *) continue;; esac
  b=$(basename "$m" .diff)
  r=$(tools/try_patch.sh "$m" 2>&1)
  if echo "$r" | grep -q "PATCH DOES NOT APPLY"; then
    echo "| $b | — | patch does not apply to the current tree | skipped |" >> "$OUT"; continue
  fi
  fired=$(echo "$r" | grep "^== C.. fires" | sed 's/== \(C..\) fires:/\1/' | tr '\n' ' ')
  rules=$(echo "$r" | grep -oE "^  (VIOLATED|UNDECIDED) [A-Za-z0-9-]+" | awk '{print $2}' | sort -u | tr '\n' ' ')
  infra=$(echo "$r" | grep -c "infrastructure problem")
  case "$b" in
    break-*)
      exp="must fire"
      want=$(grep "^$b " mutants/expect.txt 2>/dev/null | cut -d' ' -f2)
      if [ -n "$fired" ] && { [ -z "$want" ] || echo " $rules" | grep -q " $want "; }; then v=ok; else v=MISSED; bad=1; fi
      [ -n "$want" ] && exp="must fire $want"
      ;;
    *)
      exp="must stay silent"
      if [ -z "$fired" ] && [ "$infra" = 0 ]; then v=ok; else v=FALSE-ALARM; bad=1; fi
      ;;
  esac
  echo "| $b | $exp | ${fired:-—} (${rules:-—}) | $v |" >> "$OUT"
  echo "$b: $v  [$fired] [$rules]"
done
if [ -n "${SELFTEST_ONE:-}" ]; then grep "^| " "$OUT" | grep -v "^| mutant\|^|---" > /tmp/selftest.$(basename "$PAT" .diff).row; rm -f "$OUT"; exit $bad; fi
mv "$OUT" mutants/RESULTS.md
exit $bad
