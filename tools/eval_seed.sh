#!/bin/sh
# usage: tools/eval_seed.sh <worktree-out-dir> <n> <demo-dir-relative> <go test -run pattern> [extra go test flags]
# Confirms a seeded change in a scratch copy of /repo: applies, builds, runs the suite, runs the demo
# with and without the change; then runs all claimed checks against the changed copy.
set -u
OUT=$1; N=$2; DDIR=$3; PAT=$4; shift 4; EXTRA="$*"
export GOFLAGS=-mod=mod GOPROXY=off GOSUMDB=off GOTOOLCHAIN=local GOWORK=off
S=$(mktemp -d /tmp/seedeval.XXXXXX)
rsync -a --exclude .git --exclude _out /repo/ "$S/repo/"
cp "$OUT/demo${N}_test.go" "$S/repo/$DDIR/zz_seed_demo_test.go"
cd "$S/repo"
echo "--- demo without change:"; go test -vet=off -count=1 $EXTRA -run "$PAT" ./$DDIR/ 2>&1 | tail -3
if ! patch -p1 -s < "$OUT/change${N}.diff"; then echo "PATCH DOES NOT APPLY"; rm -rf "$S"; exit 2; fi
echo "--- build:"; go build ./... 2>&1 | tail -3
echo "--- demo with change:"; go test -vet=off -count=1 $EXTRA -run "$PAT" ./$DDIR/ 2>&1 | grep -E "^(--- FAIL|FAIL|ok|panic)" | head -5
rm "$S/repo/$DDIR/zz_seed_demo_test.go"
echo "--- suite with change:"; /verif/tools/suite.sh "$S/repo" | tail -2
cd /verif; rm -rf "$S"
# the checks of the seed's own property first; all of them only if none of those fires
OWN=$(echo "$OUT" | grep -o 'C[0-9][0-9]' | head -1)
R=$(/verif/tools/try_patch.sh "$OUT/change${N}.diff" $OWN)
if ! echo "$R" | grep -q "^== C.. fires\|infrastructure problem"; then R=$(/verif/tools/try_patch.sh "$OUT/change${N}.diff"); fi
echo "--- checks:"; echo "$R" | grep -v "exit=0"
