#!/bin/sh
# usage: tools/try_patch.sh <patch.diff> [property ...]
# Applies the patch to a scratch copy of /repo (outside /repo and /verif), runs the quick checks of the
# given properties (default: all claimed) against the copy, prints which ones report violations, and
# removes the copy. Evidence files are not touched (JSV_VERIF points to a scratch dir).
set -u
PATCH=$(readlink -f "$1"); shift
PROPS="$*"
BIN=${JSV_BIN:-/verif/bin/jsv}
[ -z "$PROPS" ] && PROPS=$($BIN list | grep -o '^C[0-9]*')
S=$(mktemp -d /tmp/seedrun.XXXXXX)
rsync -a --exclude .git --exclude _out /repo/ "$S/repo/"
if ! (cd "$S/repo" && patch -p1 -s < "$PATCH"); then echo "PATCH DOES NOT APPLY"; rm -rf "$S"; exit 2; fi
mkdir -p "$S/verif" && cp /verif/known_findings.json "$S/verif/"
export GOFLAGS=-mod=mod GOPROXY=off GOSUMDB=off GOTOOLCHAIN=local GOWORK=off
for p in $PROPS; do
  echo $p
done | xargs -P 6 -I{} sh -c "$BIN check --property {} --tier quick --repo $S/repo --verif $S/verif > $S/{}.log 2>&1; echo \"{} exit=\$?\" >> $S/summary"
sort "$S/summary"
for p in $PROPS; do
  if grep -q "^VIOLATION" "$S/$p.log"; then
    echo "== $p fires:"; grep -E "^  (VIOLATED|UNDECIDED)" -A1 "$S/$p.log" | grep -v "^--" | cut -c1-400 | head -12
  fi
  grep -q "no verdict\|engine panic\|load failed" "$S/$p.log" && { echo "== $p infrastructure problem"; tail -3 "$S/$p.log"; }
done
rm -rf "$S"
