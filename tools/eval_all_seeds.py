#!/usr/bin/env python3
# Evaluates every delivered seeded change under /tmp/wt/*/_out that has no result yet.
import os, re, subprocess, glob, sys
BASE = '/tmp/wt'
OFFSET = 0
for i, a in enumerate(sys.argv):
    if a == '--base':
        BASE = sys.argv[i + 1]
    if a == '--offset':
        OFFSET = int(sys.argv[i + 1])
os.makedirs('/tmp/seed_eval', exist_ok=True)
PAR = 1
for i, a in enumerate(sys.argv):
    if a == '--par':
        PAR = int(sys.argv[i + 1])
jobs = []
for out in sorted(glob.glob(BASE + '/C*/_out')):
    pid = out.split('/')[-2]
    for n in (1, 2, 3):
        demo = f'{out}/demo{n}_test.go'
        if not os.path.exists(demo) or not os.path.exists(f'{out}/change{n}.diff'):
            continue
        res = f'/tmp/seed_eval/{pid}-{n + OFFSET}.txt'
        if os.path.exists(res) and '--force' not in sys.argv:
            continue
        first = ' '.join(open(demo).read().split('\n')[:6])
        m = re.search(r'-run\s+[\'"]?([A-Za-z0-9_|^$.*]+)', first)
        pat = m.group(1) if m else 'Demo'
        d = None
        m2 = re.search(r'Place(?: this file)? in:?\s*([^\s(,]+)', first)
        if m2:
            d = m2.group(1).strip().rstrip('/')
            d = re.sub(r'^/tmp/wt\d?/C\d+/?', '', d) or '.'
        if d is None or d.startswith('/'):
            d = '.'
        extra = '-race' if '-race' in first else ''
        jobs.append((pid, n, d, pat, extra, out, res))

def run(job):
    pid, n, d, pat, extra, out, res = job
    print(pid, n, d, pat, extra, flush=True)
    r = subprocess.run(['/verif/tools/eval_seed.sh', out, str(n), d, pat] + ([extra] if extra else []), capture_output=True, text=True)
    open(res, 'w').write(r.stdout + r.stderr)

if PAR <= 1:
    for j in jobs:
        run(j)
else:
    from concurrent.futures import ThreadPoolExecutor
    with ThreadPoolExecutor(PAR) as ex:
        list(ex.map(run, jobs))
