#!/usr/bin/env python3
# Rewrites the seeded-changes table of DESIGN.md (between the SEEDS markers) from seeded/*/meta.json.
import json, glob, os, re
rows = []
for d in sorted(glob.glob('/verif/seeded/C*/'), key=lambda x: (x.split('/')[-2].split('-')[0], int(x.split('/')[-2].split('-')[1]))):
    m = json.load(open(d + 'meta.json'))
    name = os.path.basename(d.rstrip('/'))
    desc = (m.get('summary') or '').replace('|', '/').replace('\n', ' ')
    desc = desc[:100].rsplit(' ', 1)[0] + '…'
    if m.get('superseded'):
        rows.append((name, desc, 'no longer breaking (see meta.json): silent, as it must be', '—'))
        continue
    rows.append((name, desc, ' '.join(m['checks_fired']) or '—', ' '.join(m['rules_fired']) or '—'))
out = ['| seed | what the change does (short) | checks that fire | rules |', '|---|---|---|---|']
for r in rows:
    out.append('| %s | %s | %s | %s |' % r)
breaking = [r for r in rows if not r[2].startswith('no longer breaking')]
c = sum(1 for r in breaking if r[2] != '—')
out.append('')
out.append('%d of %d confirmed breaking changes are caught (%d stored change(s) stopped being breaking after a later fix).' % (c, len(breaking), len(rows) - len(breaking)))
s = open('/verif/DESIGN.md').read()
i = s.index('<!-- SEEDS-BEGIN -->')
j = s.index('<!-- SEEDS-END -->')
s = s[:i] + '<!-- SEEDS-BEGIN -->\n' + '\n'.join(out) + '\n' + s[j:]
open('/verif/DESIGN.md', 'w').write(s)
print(c, len(breaking))
