#!/bin/sh
# usage: tools/recheck_seeds.sh [pattern]
# Re-runs all quick checks against every stored seeded change (scratch copy of /repo per seed, removed
# afterwards) and reports which fire; a seed recorded as caught in its meta.json that no longer fires is
# reported as REGRESSION (exit 1).
set -u
cd /verif
PAT=${1:-}
bad=0
for d in seeded/C*/; do
  b=$(basename "$d")
  case "$b" in *"$PAT"*) ;; *) continue;; esac
  r=$(tools/try_patch.sh "$d/patch.diff" 2>&1)
  fired=$(echo "$r" | grep "^== C.. fires" | sed 's/== \(C..\) fires:/\1/' | tr '\n' ' ')
  rules=$(echo "$r" | grep -oE "^  (VIOLATED|UNDECIDED) [A-Za-z0-9-]+" | awk '{print $2}' | sort -u | tr '\n' ' ')
  was=$(python3 -c "import json;print('yes' if json.load(open('$d/meta.json'))['caught'] else 'no')")
  v=ok
  if [ "$was" = yes ] && [ -z "$fired" ]; then v=REGRESSION; bad=1; fi
  if [ "$was" = no ] && [ -n "$fired" ]; then v=NEWLY-CAUGHT; fi
  echo "$b: $v [$fired] [$rules]"
done
exit $bad
