#!/bin/sh
# usage: tools/recheck_seeds.sh [--update] [pattern]
# Re-runs all quick checks against every stored seeded change (scratch copy of /repo per seed, removed
# afterwards) and reports which fire; a seed recorded as caught in its meta.json that no longer fires is
# reported as REGRESSION (exit 1). With --update the meta.json files and seeded/RESULTS.md are rewritten
# from this run.
set -u
cd /verif
if [ "${1:-}" = "--par" ]; then
  # N seeds at a time, each with --update; the summary is rebuilt once at the end
  N=${2:-3}
  ls -d seeded/C*/ | xargs -n1 basename | xargs -P "$N" -I{} sh -c 'RECHECK_ONE=1 tools/recheck_seeds.sh --update "{}/" > /tmp/recheck.{}.out 2>&1'
  cat /tmp/recheck.C*.out | grep -E "^C[0-9]+-[0-9]+:" | sort -t- -k1,1 -k2,2n
  bad=$(cat /tmp/recheck.C*.out | grep -c REGRESSION)
  rm -f /tmp/recheck.C*.out
  RECHECK_SUMMARY=1 tools/recheck_seeds.sh --update __none__ | tail -2
  [ "$bad" = 0 ]; exit $?
fi
UPDATE=0
if [ "${1:-}" = "--update" ]; then UPDATE=1; shift; fi
PAT=${1:-}
bad=0
for d in seeded/C*/; do
  b=$(basename "$d")
  case "$b/" in *"$PAT"*) ;; *) continue;; esac
  # first the checks that matter for this seed (its own property and those that fired before); the
  # whole set only if none of them fires
  own=$(echo "$b" | cut -d- -f1)
  prev=$(python3 -c "import json;print(' '.join(json.load(open('$d/meta.json')).get('checks_fired',[])))")
  props=$(echo "$own $prev" | tr ' ' '\n' | sort -u | tr '\n' ' ')
  r=$(tools/try_patch.sh "$d/patch.diff" $props 2>&1)
  if ! echo "$r" | grep -q "^== C.. fires"; then r=$(tools/try_patch.sh "$d/patch.diff" 2>&1); fi
  fired=$(echo "$r" | grep "^== C.. fires" | sed 's/== \(C..\) fires:/\1/' | tr '\n' ' ')
  rules=$(echo "$r" | grep -oE "^  (VIOLATED|UNDECIDED) [A-Za-z0-9-]+" | awk '{print $2}' | sort -u | tr '\n' ' ')
  was=$(python3 -c "import json;print('yes' if json.load(open('$d/meta.json'))['caught'] else 'no')")
  v=ok
  if [ "$was" = yes ] && [ -z "$fired" ]; then v=REGRESSION; bad=1; fi
  if [ "$was" = no ] && [ -n "$fired" ]; then v=NEWLY-CAUGHT; fi
  echo "$b: $v [$fired] [$rules]"
  if [ $UPDATE = 1 ]; then
    FIRED="$fired" RULES="$rules" python3 - "$d/meta.json" <<'PY'
import json,os,sys
p=sys.argv[1]
m=json.load(open(p))
m['checks_fired']=os.environ['FIRED'].split()
m['rules_fired']=os.environ['RULES'].split()
m['caught']=bool(m['checks_fired'])
m.pop('obligations_fired',None)
json.dump(m,open(p,'w'),indent=1)
PY
  fi
done
if [ $UPDATE = 1 ] && [ -z "${RECHECK_ONE:-}" ]; then
python3 - <<'PY'
import json,glob,os
rows=[]
for d in sorted(glob.glob('/verif/seeded/C*/')):
    m=json.load(open(d+'meta.json'))
    if m.get('superseded'):
        continue
    rows.append((os.path.basename(d.rstrip('/')),' '.join(m['checks_fired']) or '—',' '.join(m['rules_fired']) or '—',(m.get('summary') or '')[:160].replace('|','/').replace('\n',' ')))
with open('/verif/seeded/RESULTS.md','w') as f:
    f.write('# Seeded changes: which quick checks fire\n\nEvery row: the change compiles, the full suite stays at baseline, the demonstration passes without and fails with it (re-confirmed in a scratch copy).\n\n| seed | properties whose check fires | rules | change |\n|---|---|---|---|\n')
    for r in rows: f.write(f'| {r[0]} | {r[1]} | {r[2]} | {r[3]} |\n')
    c=sum(1 for r in rows if r[1]!='—')
    f.write(f'\n{c} of {len(rows)} confirmed changes are caught.\n')
print(open('/verif/seeded/RESULTS.md').read()[-60:])
PY
fi
exit $bad
