#!/usr/bin/env python3
# Stores the confirmed seeded changes delivered under /tmp/wt/*/_out (sub-agent worktrees) together with
# their evaluation logs (/tmp/seed_eval) as /verif/seeded/<id>-<n>/ and writes seeded/RESULTS.md.
import os, re, json, glob, shutil, subprocess, sys
BASE = '/tmp/wt'
OFFSET = 0
for i, a in enumerate(sys.argv):
    if a == '--base':
        BASE = sys.argv[i + 1]
    if a == '--offset':
        OFFSET = int(sys.argv[i + 1])
rows = []
for out in sorted(glob.glob(BASE + '/C*/_out')):
    pid = out.split('/')[-2]
    for n in (1, 2, 3):
        res = f'/tmp/seed_eval/{pid}-{n + OFFSET}.txt'
        if not os.path.exists(res):
            continue
        log = open(res).read()
        def after(h, k=1):
            m = re.search(re.escape(h) + r'\n((?:.*\n){0,%d})' % k, log)
            return m.group(1).strip() if m else ''
        without = after('--- demo without change:', 3)
        withc = after('--- demo with change:', 5)
        build = after('--- build:', 1)
        suite = after('--- suite with change:', 2)
        ok_without = without.startswith('ok') or '\nok' in without
        fails_with = 'FAIL' in withc or 'panic' in withc
        builds = not build or build.startswith('--- demo')
        suite_ok = 'SUITE: ok' in suite
        fired = re.findall(r'^== (C\d\d) fires', log, re.M)
        rules = sorted(set(re.findall(r'^  (?:VIOLATED|UNDECIDED) ([A-Za-z0-9-]+)', log, re.M)))
        keys = sorted(set(re.findall(r'^  (?:VIOLATED|UNDECIDED) ([A-Za-z0-9-]+ \[[^\]]*\])', log, re.M)))
        confirmed = ok_without and fails_with and builds and suite_ok
        meta = json.load(open(f'{out}/meta{n}.json'))
        demo_src = open(f'{out}/demo{n}_test.go').read()
        first = ' '.join(demo_src.split('\n')[:6])
        m = re.search(r'-run\s+[\'"]?([A-Za-z0-9_|^$.*]+)', first)
        pat = m.group(1) if m else 'Demo'
        m2 = re.search(r'Place(?: this file)? in:?\s*([^\s(,]+)', first)
        d = '.'
        if m2:
            d = re.sub(r'^/tmp/wt\d?/C\d+/?', '', m2.group(1).strip().rstrip('/')) or '.'
            if d.startswith('/'):
                d = '.'
        race = ' -race' if '-race' in first else ''
        dst = f'/verif/seeded/{pid}-{n + OFFSET}'
        if not confirmed:
            rows.append((pid, n + OFFSET, 'NOT CONFIRMED', '', '', meta.get('summary', '')[:140]))
            continue
        os.makedirs(dst, exist_ok=True)
        shutil.copy(f'{out}/change{n}.diff', f'{dst}/patch.diff')
        shutil.copy(f'{out}/demo{n}_test.go', f'{dst}/demo_test.go')
        meta_out = {
            'property': pid,
            'origin': 'independent sub-agent given only the property text and a scratch git worktree of /repo',
            'summary': meta.get('summary'),
            'why_it_breaks': meta.get('why_it_breaks'),
            'needs_to_manifest': meta.get('needs_to_manifest'),
            'files': meta.get('files'),
            'demonstration': {
                'file': 'demo_test.go',
                'place_in': d,
                'run': f'go test -vet=off -count=1{race} -run {pat} ./{d}/',
            },
            'confirmed_here': {
                'how': 'tools/eval_seed.sh on a scratch copy of /repo (removed afterwards): demo without the change, patch, go build ./..., demo with the change, full suite (tools/suite.sh), then all quick checks against the changed copy (tools/try_patch.sh)',
                'demo_passes_without_change': ok_without,
                'demo_fails_with_change': fails_with,
                'builds': builds,
                'suite_at_baseline': suite_ok,
            },
            'checks_fired': fired,
            'rules_fired': rules,
            'obligations_fired': keys[:12],
            'caught': bool(fired),
        }
        json.dump(meta_out, open(f'{dst}/meta.json', 'w'), indent=1)
        rows.append((pid, n + OFFSET, 'confirmed', ' '.join(fired) or '—', ' '.join(rules) or '—', (meta.get('summary') or '')[:160].replace('|', '/').replace('\n', ' ')))
for r in rows:
    if r[2] != 'confirmed':
        print('NOT CONFIRMED:', r)
# RESULTS.md lists every stored seed
allrows = []
for d in sorted(glob.glob('/verif/seeded/C*/')):
    m = json.load(open(d + 'meta.json'))
    allrows.append((os.path.basename(d.rstrip('/')), ' '.join(m['checks_fired']) or '—', ' '.join(m['rules_fired']) or '—', (m.get('summary') or '')[:160].replace('|', '/').replace('\n', ' ')))
with open('/verif/seeded/RESULTS.md', 'w') as f:
    f.write('# Seeded changes: which quick checks fire\n\n')
    f.write('Every row: the change compiles, the full suite stays at baseline, the demonstration passes without and fails with it (re-confirmed in a scratch copy).\n\n')
    f.write('| seed | properties whose check fires | rules | change |\n|---|---|---|---|\n')
    for r in allrows:
        f.write(f'| {r[0]} | {r[1]} | {r[2]} | {r[3]} |\n')
    c = sum(1 for r in allrows if r[1] != '—')
    f.write(f'\n{c} of {len(allrows)} confirmed changes are caught.\n')
print(open('/verif/seeded/RESULTS.md').read()[-300:])
