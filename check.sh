#!/bin/sh
# usage: ./check.sh <property-id> [quick|thorough]
# Static check of one property against /repo's current working tree. Rebuilds the analyser if needed.
set -u
cd "$(dirname "$0")"
export GOFLAGS=-mod=mod GOPROXY=off GOSUMDB=off GOTOOLCHAIN=local GOWORK=off
unset GOWORK_FILE 2>/dev/null
PROP="${1:?property id}"
TIER="${2:-${VERIF_TIER:-quick}}"
if [ ! -x bin/jsv ] || [ -n "$(find tool -name '*.go' -newer bin/jsv 2>/dev/null | head -1)" ]; then
  (cd tool && go build -o ../bin/jsv ./cmd/jsv) || { echo "cannot build analyser" >&2; exit 2; }
fi
exec ./bin/jsv check --property "$PROP" --tier "$TIER" --repo "${JSV_REPO:-/repo}" --verif "$(pwd)"
